#!/bin/sh
# usage: tools/quick_seed.sh <seed_name> <CHECK_ID>...  : apply seed patch in a scratch worktree and run checks (no demo / baseline)
s=$1; shift
wt=$(mktemp -u /tmp/qs_XXXXXX)
git -C /repo worktree add --detach $wt HEAD -q
cp /repo/pymablock/_version.py $wt/pymablock/_version.py
d=/tmp/seed_out/$s; [ -d $d ] || d=/verif/seeded/$s
git -C $wt apply $d/patch.diff || echo "PATCH DOES NOT APPLY"
for c in "$@"; do
  PMB_REPO=$wt VERIF_NO_EVIDENCE=1 VERIF_NO_HASHCHECK=1 /verif/bin/check $c --tier ${TIER:-quick} 2>&1 | grep -E "class x|^C[0-9]+ tier|HARNESS" | cut -c1-260 | head -6
done
git -C /repo worktree remove --force $wt
