#!/venv/bin/python
"""Rewrite the table of section 11 of DESIGN.md from /verif/seeded/*/meta.json."""
import glob, json, os, re

rows = []
for f in sorted(glob.glob("/verif/seeded/*/meta.json")):
    m = json.load(open(f))
    name = os.path.basename(os.path.dirname(f))
    caught = sorted(k for k, v in m.get("checks", {}).items() if v.get("reports_violation"))
    missed = sorted(k for k, v in m.get("checks", {}).items() if not v.get("reports_violation"))
    summ = (m.get("summary") or "").replace("|", "/").replace("\n", " ")
    rows.append(f"| {name} | {m['property']} | {summ[:170]} | {', '.join(caught) or '—'} | {', '.join(missed) or ''} |")
table = "\n".join(["<!-- SEED-TABLE-BEGIN -->", "| seed | property | change (author's summary) | reported by (quick tier) | not reported by |", "|---|---|---|---|---|"] + rows + ["<!-- SEED-TABLE-END -->"])
p = "/verif/DESIGN.md"
s = open(p).read()
if "<!-- SEED-TABLE-BEGIN -->" in s:
    s = re.sub(r"<!-- SEED-TABLE-BEGIN -->.*<!-- SEED-TABLE-END -->", lambda _: table, s, flags=re.S)
else:
    s = s.rstrip() + "\n\n" + table + "\n"
open(p, "w").write(s)
print(len(rows), "rows")
