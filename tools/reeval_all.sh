#!/bin/sh
# Re-evaluate every seeded change (from /tmp/seed_out if present, else /verif/seeded) in N parallel streams.
N=${1:-3}
mkdir -p /tmp/seed_eval
ls -d /tmp/seed_out/[COPQRTUVWXYZ]* 2>/dev/null | xargs -n1 basename | sort > /tmp/seed_eval/all.txt
i=0
rm -f /tmp/seed_eval/stream_*.txt
while read s; do echo $s >> /tmp/seed_eval/stream_$((i % N)).txt; i=$((i+1)); done < /tmp/seed_eval/all.txt
for f in /tmp/seed_eval/stream_*.txt; do
  ( /verif/tools/eval_seeds.sh $(cat $f) > $f.log 2>&1 & )
done
echo "started $N streams over $(wc -l < /tmp/seed_eval/all.txt) seeds"
