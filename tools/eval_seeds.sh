#!/bin/sh
# usage: tools/eval_seeds.sh <seed_name> ...   (directories under /tmp/seed_out)
for s in "$@"; do
  d=/tmp/seed_out/$s
  [ -f $d/patch.diff ] || { echo "$s: no patch"; continue; }
  out=/tmp/seed_eval/$s.json
  mkdir -p /tmp/seed_eval
  /verif/tools/try_seed.py $d > $out 2>/dev/null
  /venv/bin/python - "$out" <<'PY'
import json,sys
r=json.load(open(sys.argv[1]))
print(r["seed"], "clean",r.get("demo_clean_exit"),"patched",r.get("demo_patched_exit"),"baseline",r.get("baseline_ok"), {k:(v["violation"],v["wall"]) for k,v in r.get("checks",{}).items()}, [v["first"][:1] for v in r.get("checks",{}).values()])
PY
done
