#!/venv/bin/python
"""Regenerate /verif/MANIFEST.json from the check modules present in pmbverif/checks."""
import importlib
import json
import os
import sys

HERE = os.path.dirname(os.path.dirname(os.path.abspath(__file__)))
sys.path.insert(0, HERE)
props = [json.loads(l) for l in open(os.path.join(HERE, "properties.jsonl"))]
checks, na = [], []
for p in props:
    pid = p["id"]
    path = os.path.join(HERE, "pmbverif", "checks", pid.lower() + ".py")
    if not os.path.exists(path):
        na.append({"property_id": pid, "reason": "check not built yet (work in progress; a bounded-exhaustive reading exists, see DESIGN.md section 4)"})
        continue
    mod = importlib.import_module(f"pmbverif.checks.{pid.lower()}")
    if getattr(mod, "NOT_CLAIMED", None):
        na.append({"property_id": pid, "reason": mod.NOT_CLAIMED})
        continue
    checks.append({
        "property_id": pid,
        "quick_cmd": f"bin/check {pid} --tier quick",
        "thorough_cmd": f"bin/check {pid} --tier thorough",
        "evidence_file": f"/verif/evidence/{pid}.json",
        "replay_cmd_template": f"bin/check {pid} --replay {{path}}",
        "engine": getattr(mod, "ENGINE", "pmbverif"),
        "level_claimed": {"category": mod.LEVEL, "text": mod.LEVEL_TEXT, "design_ref": f"DESIGN.md section 4, {pid}"},
        "level_note": mod.LEVEL_NOTE,
        "technique": mod.TECHNIQUE,
    })
man = {
    "version": 1,
    "setup_cmd": "true",
    "hooks": {
        "guard": "PYMABLOCK_VERIF",
        "enable": "no source hooks are needed: every internal series is reachable through H_tilde.eval.__globals__; checks export PYMABLOCK_VERIF=1 for uniformity",
        "baseline_off_cmd": "cd /repo && env -u PYMABLOCK_VERIF /venv/bin/python -m pytest -ra -q -p no:cacheprovider --timeout=900 --continue-on-collection-errors -o addopts=''",
        "source_commits": [],
        "add_only": True,
    },
    "engines": [
        {"name": "pmbverif", "path": "/verif/pmbverif", "serves_properties": [c["property_id"] for c in checks],
         "kind_free_text": "hand-written bounded-exhaustive explorers over the real pymablock code (configuration lattice, explicit-state BFS over request histories, fault-point enumeration, DSL program enumeration) with independent exact reference models"},
    ],
    "checks": checks,
    "not_applicable": na,
    "notes": "All checks run `PYTHONHASHSEED=0 /venv/bin/python -m pmbverif.run <ID>` via bin/check against the editable install of /repo. Known findings: /verif/known_findings.json.",
}
json.dump(man, open(os.path.join(HERE, "MANIFEST.json"), "w"), indent=1)
print("checks:", [c["property_id"] for c in checks], "not_applicable:", [n["property_id"] for n in na])
