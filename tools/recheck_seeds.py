#!/venv/bin/python
"""Re-run, for every kept seeded change, the first check recorded as reporting it, against the current /repo HEAD:
   tools/recheck_seeds.py [stream_index n_streams]
Writes /verif/seeded/<id>/recheck.json {head, applies, check, reports_violation} and prints one line per seed."""
import glob, json, os, subprocess, sys, tempfile

only = None
if len(sys.argv) > 1 and sys.argv[1] == "--only":
    only = set(sys.argv[2].split(","))
    sys.argv = sys.argv[:1]
idx, nstreams = (int(sys.argv[1]), int(sys.argv[2])) if len(sys.argv) > 2 else (0, 1)
head = subprocess.run(["git", "-C", "/repo", "log", "--format=%h", "-1"], capture_output=True, text=True).stdout.strip()
seeds = sorted(glob.glob("/verif/seeded/*/meta.json"))
for n, f in enumerate(seeds):
    if only is None and n % nstreams != idx:
        continue
    d = os.path.dirname(f)
    name = os.path.basename(d)
    if only is not None and name not in only:
        continue
    meta = json.load(open(f))
    catching = [k for k, v in meta.get("checks", {}).items() if v.get("reports_violation")]
    if not catching:
        print(name, "NO CATCHING CHECK RECORDED", flush=True)
        continue
    wt = tempfile.mkdtemp(prefix="rc_", dir="/tmp")
    os.rmdir(wt)
    subprocess.run(["git", "-C", "/repo", "worktree", "add", "--detach", wt, "HEAD", "-q"], check=True)
    try:
        subprocess.run(["cp", "/repo/pymablock/_version.py", wt + "/pymablock/_version.py"])
        ap = subprocess.run(["git", "-C", wt, "apply", d + "/patch.diff"], capture_output=True, text=True)
        res = {"head": head, "applies": ap.returncode == 0, "check": catching[0], "reports_violation": None}
        if ap.returncode == 0:
            c = subprocess.run(["/verif/bin/check", catching[0], "--tier", "quick"], capture_output=True, text=True,
                               env=dict(os.environ, PMB_REPO=wt, VERIF_NO_EVIDENCE="1", VERIF_NO_HASHCHECK="1"))
            res["reports_violation"] = "VIOLATION" in c.stdout
            res["exit"] = c.returncode
        json.dump(res, open(d + "/recheck.json", "w"), indent=1)
        print(name, res, flush=True)
    finally:
        subprocess.run(["git", "-C", "/repo", "worktree", "remove", "--force", wt])
