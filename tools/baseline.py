#!/venv/bin/python
"""Run the repository's test suite (guard off) and compare with /root/.vp/BASELINE.json.
usage: tools/baseline.py [repo_dir]   -> exit 0 iff every stable_pass test still passes."""
import json, os, subprocess, sys, tempfile
import xml.etree.ElementTree as ET

repo = sys.argv[1] if len(sys.argv) > 1 else "/repo"
base = json.load(open("/root/.vp/BASELINE.json"))
out = tempfile.mktemp(suffix=".xml", dir="/root")
env = {k: v for k, v in os.environ.items() if k != "PYMABLOCK_VERIF"}
env["PYTHONPATH"] = repo
subprocess.run(["/venv/bin/python", "-m", "pytest", "-q", "-p", "no:cacheprovider", "--timeout=900",
                "--continue-on-collection-errors", "-o", "addopts=", f"--junitxml={out}"] + sys.argv[2:],
               cwd=repo, env=env, stdout=subprocess.DEVNULL, stderr=subprocess.DEVNULL)
passed = set()
for tc in ET.parse(out).getroot().iter("testcase"):
    if not any(ch.tag in ("failure", "error", "skipped") for ch in tc):
        passed.add(f"{tc.get('classname')}::{tc.get('name')}")
os.remove(out)
missing = [t for t in base["stable_pass"] if t not in passed]
print(f"passed={len(passed)} baseline={len(base['stable_pass'])} baseline_missing={len(missing)}")
for t in missing[:20]:
    print("  MISSING", t)
sys.exit(1 if missing else 0)
