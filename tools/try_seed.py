#!/venv/bin/python
"""Evaluate one seeded change: tools/try_seed.py <seed_dir> [CHECK_ID ...]
 1. scratch worktree of /repo HEAD; demo.py must exit 0 on the clean tree
 2. apply patch.diff; demo.py must exit non-zero; baseline test suite must still pass
 3. run the given checks (default: the property's own) with PMB_REPO=<worktree>; report which raise VIOLATION
 4. remove the worktree.  Prints a JSON summary."""
import json, os, subprocess, sys, tempfile, time, shutil

seed = os.path.abspath(sys.argv[1])
meta = json.load(open(os.path.join(seed, "meta.json")))
checks = sys.argv[2:] or [meta["property"]]
wt = tempfile.mkdtemp(prefix="try_", dir="/tmp")
os.rmdir(wt)
subprocess.run(["git", "-C", "/repo", "worktree", "add", "--detach", wt, "HEAD", "-q"], check=True)
shutil.copy("/repo/pymablock/_version.py", os.path.join(wt, "pymablock", "_version.py"))  # git-ignored, generated
res = {"seed": os.path.basename(seed), "property": meta["property"], "summary": meta.get("summary")}
try:
    env = dict(os.environ, PYTHONPATH=wt, PYTHONHASHSEED="0")
    demo = os.path.join(seed, "demo.py")
    r0 = subprocess.run(["/venv/bin/python", demo], cwd=wt, env=env, capture_output=True, text=True, timeout=1200)
    res["demo_clean_exit"] = r0.returncode
    ap = subprocess.run(["git", "-C", wt, "apply", os.path.join(seed, "patch.diff")], capture_output=True, text=True)
    res["patch_applies"] = ap.returncode == 0
    if ap.returncode == 0:
        r1 = subprocess.run(["/venv/bin/python", demo], cwd=wt, env=env, capture_output=True, text=True, timeout=1200)
        res["demo_patched_exit"] = r1.returncode
        res["demo_patched_tail"] = (r1.stdout + r1.stderr)[-300:]
        if "--no-baseline" not in checks:
            b = subprocess.run(["/verif/tools/baseline.py", wt], capture_output=True, text=True)
            if b.returncode != 0 and b.stdout.count("MISSING") == 1 and "test_check_unitary" in b.stdout:
                # known rare flake of the suite itself (random instance, independent of any change): run again
                b = subprocess.run(["/verif/tools/baseline.py", wt], capture_output=True, text=True)
            res["baseline_ok"] = b.returncode == 0
            res["baseline_out"] = b.stdout.strip()[-200:]
        res["checks"] = {}
        for cid in [c for c in checks if not c.startswith("--")]:
            t = time.time()
            c = subprocess.run(["/verif/bin/check", cid, "--tier", "quick"], env=dict(os.environ, PMB_REPO=wt, VERIF_NO_EVIDENCE="1"),
                               capture_output=True, text=True)
            lines = [l for l in c.stdout.splitlines() if l.startswith("  ->") or l.startswith("  class")]
            res["checks"][cid] = {"exit": c.returncode, "violation": "VIOLATION" in c.stdout, "wall": round(time.time() - t, 1),
                                  "first": lines[:2]}
finally:
    subprocess.run(["git", "-C", "/repo", "worktree", "remove", "--force", wt])
print(json.dumps(res, indent=1))
