#!/venv/bin/python
"""Copy evaluated seeded changes from /tmp/seed_out + /tmp/seed_eval into /verif/seeded/<id>/."""
import json, os, shutil, sys, glob

for ev in sorted(glob.glob("/tmp/seed_eval/[COPQRTUVWXYZ]*.json")):
    name = os.path.basename(ev)[:-5]
    src = f"/tmp/seed_out/{name}"
    try:
        r = json.load(open(ev))
    except Exception:
        continue
    if not (r.get("demo_clean_exit") == 0 and r.get("demo_patched_exit") not in (0, None) and r.get("patch_applies")):
        print("skip (not confirmed):", name, {k: r.get(k) for k in ("demo_clean_exit", "demo_patched_exit", "baseline_ok")})
        continue
    dst = f"/verif/seeded/{name}"
    os.makedirs(dst, exist_ok=True)
    shutil.copy(f"{src}/patch.diff", dst)
    shutil.copy(f"{src}/demo.py", dst)
    author = json.load(open(f"{src}/meta.json"))
    old = {}
    if os.path.exists(f"{dst}/meta.json"):
        old = json.load(open(f"{dst}/meta.json"))
    meta = {
        "property": r["property"],
        "summary": author.get("summary"),
        "needs": author.get("needs"),
        "author_ran": author.get("ran"),
        "confirmed": {
            "demo_exit_on_clean_tree": r["demo_clean_exit"], "demo_exit_with_change": r["demo_patched_exit"],
            "existing_suite_still_passes": r.get("baseline_ok"), "baseline_output": r.get("baseline_out"),
            "how": "tools/try_seed.py: scratch worktree of /repo HEAD, demo.py before/after `git apply patch.diff`, tools/baseline.py on the patched worktree, then bin/check <ID> --tier quick with PMB_REPO=<worktree>",
        },
        "checks": {**old.get("checks", {}), **{k: {"reports_violation": v["violation"], "wall_s": v["wall"], "first": v["first"][:1]} for k, v in r.get("checks", {}).items()}},
    }
    json.dump(meta, open(f"{dst}/meta.json", "w"), indent=1)
    print("collected", name, {k: v["reports_violation"] for k, v in meta["checks"].items()})
