"""Truncated multivariate power series in the perturbation parameters: scalar series over Q
(or complex floats) and matrix series {order: M/NP}; Faddeev-LeVerrier characteristic
polynomial and Newton (Hensel) lifting of a simple eigenvalue.  No pymablock code."""
from __future__ import annotations

from .exact import M, NP, Q, cauchy, q, splits2


class S:
    """Scalar truncated series: dict order -> scalar (Q or complex)."""

    def __init__(self, orders, coeffs=None, zero=None):
        self.orders = orders  # downward-closed list of multi-orders
        self.zero = Q() if zero is None else zero
        self.c = dict(coeffs or {})

    def get(self, n):
        return self.c.get(n, self.zero)

    def const(self, v):
        return S(self.orders, {self.orders[0]: v}, self.zero)

    def __add__(self, o):
        return S(self.orders, {n: self.get(n) + o.get(n) for n in self.orders}, self.zero)

    def __sub__(self, o):
        return S(self.orders, {n: self.get(n) - o.get(n) for n in self.orders}, self.zero)

    def scale(self, v):
        return S(self.orders, {n: self.get(n) * v for n in self.orders}, self.zero)

    def __mul__(self, o):
        out = {}
        for n in self.orders:
            tot = self.zero
            for a, b in splits2(n):
                if a in self.c and b in o.c:
                    tot = tot + self.c[a] * o.c[b]
            out[n] = tot
        return S(self.orders, out, self.zero)

    def inv(self):
        z = self.orders[0]
        a0 = self.get(z)
        out = {z: 1 / a0 if not isinstance(a0, Q) else a0.inv()}
        for n in self.orders[1:]:
            tot = self.zero
            for a, b in splits2(n):
                if a == z:
                    continue
                tot = tot + self.get(a) * out.get(b, self.zero)
            out[n] = (self.zero - tot) * out[z]
        return S(self.orders, out, self.zero)


def mat_trace_series(A, orders, zero):
    out = {}
    for n in orders:
        m = A.get(n)
        if m is None:
            out[n] = zero
        elif isinstance(m, M):
            out[n] = sum((m.a[i][i] for i in range(m.n)), Q())
        else:
            out[n] = complex(m.v.trace())
    return S(orders, out, zero)


def charpoly(A, N, orders, exact=True):
    """Coefficients c_0..c_N (c_N = 1) of det(z - A(lambda)) as truncated scalar series,
    by Faddeev-LeVerrier; A = {order: matrix}."""
    zero = Q() if exact else 0j
    Mt = M if exact else NP
    z = orders[0]
    I = {z: Mt.eye(N)}
    Mk = dict(I)
    cs = {N: S(orders, {z: (Q(1) if exact else 1 + 0j)}, zero)}
    for k in range(1, N + 1):
        AM = {}
        for n in orders:
            AM[n] = cauchy(n, A, Mk)
        tr = mat_trace_series(AM, orders, zero)
        ck = tr.scale((Q(-1) / k) if exact else (-1.0 / k))
        cs[N - k] = ck
        Mk = {n: AM[n] + I[z].scale(ck.get(n)) if n in AM else I[z].scale(ck.get(n)) for n in orders}
    return cs


def eigenvalue_series(cs, N, orders, E0, exact=True):
    """Newton lifting of the simple root z = E0 of sum_j c_j(lambda) z^j."""
    zero = Q() if exact else 0j
    zser = S(orders, {orders[0]: (q(E0) if exact else complex(E0))}, zero)
    maxtot = max(sum(n) for n in orders)
    steps = 1
    while (1 << steps) <= maxtot + 1:
        steps += 1
    for _ in range(steps + 1):
        # Horner for p and p'
        p = cs[N]
        dp = S(orders, {}, zero)
        for j in range(N - 1, -1, -1):
            dp = dp * zser + p
            p = p * zser + cs[j]
        zser = zser - p * dp.inv()
    return zser
