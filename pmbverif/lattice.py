"""The configuration lattice Omega: enumeration of block layouts x degeneracy patterns x term
supports x sparsity patterns x selections x representations, value generation, and the bridge
that runs the real library on a configuration and returns exact dense matrices.

A configuration ("cfg") is a JSON-serialisable dict:
  sizes    block sizes (composition of N)
  E        the N unperturbed energies as [re, im] integer pairs (block order = state order)
  k        number of perturbation parameters
  support  list of multi-orders that carry a term
  pattern  dense | diag | offdiag | arrow  (structural zero blocks of every term)
  fd       list of fully diagonalised blocks, or None
  mask     {block(str): 0/1 matrix} elimination masks, or None;  "bare": True -> passed as ndarray
  repr     sympy | dense | float | csr
  hermitian bool
  vset     integer selecting the value set
  total    bound on the total order checked
"""
from __future__ import annotations

import itertools

import numpy as np

from .exact import M, NP, Q, q, orders_upto_total

POOL = [0, 1, 3, 7, 12, 20, 33, 54]  # all pairwise differences distinct


def compositions(N, maxparts=3):
    if N == 0:
        yield ()
        return
    for first in range(1, N + 1):
        for rest in compositions(N - first, maxparts):
            if len(rest) + 1 <= maxparts:
                yield (first,) + rest


def set_partitions(n):
    if n == 0:
        yield []
        return
    for p in set_partitions(n - 1):
        for i in range(len(p)):
            yield p[:i] + [p[i] + [n - 1]] + p[i + 1 :]
        yield p + [[n - 1]]


def level_patterns(sizes, placement=0, complex_levels=False):
    """Every assignment of degenerate levels inside blocks (no level spans two blocks)."""
    per = [list(set_partitions(s)) for s in sizes]
    nlev_max = sum(sizes)
    for combo in itertools.product(*per):
        nlev = sum(len(p) for p in combo)
        pool = POOL[:nlev]
        if placement == 1:  # fixed derangement: block order != energy order
            pool = pool[1:] + pool[:1] if nlev > 1 else pool
            pool = pool[::-1] if nlev > 2 else pool
        elif placement == 2:  # the zero level comes last (a vanishing H_0 block in last position)
            pool = pool[1:] + pool[:1]
        E = []
        lvl = 0
        for blk, part in zip(sizes, combo):
            e = [None] * blk
            for grp in part:
                for st in grp:
                    val = pool[lvl]
                    if complex_levels and lvl % 2 == 1:
                        e[st] = [val, lvl]  # complex unperturbed energy
                    else:
                        e[st] = [val, 0]
                lvl += 1
            E += e
        yield E


SUPPORTS = {
    1: [[(1,)], [(2,)], [(1,), (2,)], [(1,), (3,)]],
    2: [[(1, 0), (0, 1)], [(1, 0), (0, 1), (1, 1)], [(1, 0), (0, 2)], [(1, 1)]],
}


def block_of(sizes):
    return [b for b, s in enumerate(sizes) for _ in range(s)]


def offsets(sizes):
    return [0] + list(np.cumsum(sizes))


def positions(cfg):
    """State indices (ascending) of every block; contiguous unless cfg['indices'] is given."""
    idx = cfg.get("indices") or block_of(cfg["sizes"])
    nb = max(idx) + 1
    return [[a for a, b in enumerate(idx) if b == blk] for blk in range(nb)]


def sym_masks(size, E_block, hermitian=True):
    """All admissible masks of one block: never select a degenerate pair or the diagonal;
    symmetric in Hermitian mode.  Yields 0/1 nested lists."""
    pairs = [
        (i, j)
        for i in range(size)
        for j in range(size)
        if i != j and E_block[i] != E_block[j] and (not hermitian or i < j)
    ]
    for bits in itertools.product((0, 1), repeat=len(pairs)):
        m = [[0] * size for _ in range(size)]
        for (i, j), b in zip(pairs, bits):
            m[i][j] = b
            if hermitian:
                m[j][i] = b
        yield m


def eliminate_mask(cfg):
    """R[i][j] = True when element (i, j) must be eliminated; derived from the cfg only."""
    pos = positions(cfg)
    N = sum(len(p) for p in pos)
    E = [tuple(e) for e in cfg["E"]]
    R = [[True] * N for _ in range(N)]
    fd = cfg.get("fd")
    mask = cfg.get("mask")
    single_default = len(pos) == 1 and not fd and not mask
    for b, states in enumerate(pos):
        for i, gi in enumerate(states):
            for j, gj in enumerate(states):
                if mask is not None and str(b) in mask:
                    R[gi][gj] = bool(mask[str(b)][i][j])
                elif (fd and b in fd) or single_default:
                    R[gi][gj] = E[gi] != E[gj]
                else:
                    R[gi][gj] = False
    return R


def gen_values(cfg, seed):
    """Integer Gaussian values in [-3,3]^2 for every supported term, with the structural zero
    pattern applied and symmetrised as the mode requires.  Returns {order: complex ndarray}."""
    sizes = cfg["sizes"]
    N = sum(sizes)
    blk = block_of(sizes)
    off_ = offsets(sizes)
    out = {}
    real_only = cfg["repr"] in ("float", "int", "csr-int")
    for order in cfg["support"]:
        order = tuple(order)
        rng = np.random.default_rng([int(seed), int(cfg.get("vset", 0)), 977, *order])
        a = rng.integers(-3, 4, (N, N)).astype(complex)
        if not real_only:
            a = a + 1j * rng.integers(-3, 4, (N, N))
        if cfg.get("herm_values", cfg["hermitian"]):
            a = np.triu(a, 1) + np.triu(a, 1).conj().T + np.diag(np.diag(a).real)
        for i in range(N):
            for j in range(N):
                same = blk[i] == blk[j]
                pat = (cfg.get("patterns") or {}).get(",".join(str(o) for o in order), cfg["pattern"])
                if pat.startswith("pair") and not same and {blk[i], blk[j]} != {int(pat[4]), int(pat[5])}:
                    a[i, j] = 0  # this term couples one pair of blocks only
                elif pat == "diag" and not same:
                    a[i, j] = 0
                elif pat == "offdiag" and same:
                    a[i, j] = 0
                elif pat == "arrow" and not (blk[i] == 0 or blk[j] == 0 or same):
                    a[i, j] = 0
                elif pat in ("lowtri", "uptri") and not same:
                    # element-level sparsity inside the coupling blocks: block (b, b'), b < b', is strictly
                    # lower (upper) triangular in its local indices; the mirrored block follows by symmetry
                    (r, c) = (i, j) if blk[i] < blk[j] else (j, i)
                    lr, lc = r - off_[blk[r]], c - off_[blk[c]]
                    if (lr <= lc) if pat == "lowtri" else (lr >= lc):
                        a[i, j] = 0
        if cfg.get("lab_herm"):
            # the term is a Hermitian matrix in the (non-orthogonal) lab basis of the (R, L) pairs
            b = np.triu(a, 1) + np.triu(a, 1).conj().T + np.diag(np.diag(a).real)
            T, Ti = unimodular(N)
            a = Ti @ b @ T
        out[order] = a
    return out


def exact_H(cfg, values):
    """Reference-side Hamiltonian {order: M}."""
    k = cfg["k"]
    z = (0,) * k
    H = {z: M.diag([Q(e[0], e[1]) for e in cfg["E"]])}
    for o, m in values.items():
        H[o] = M([[q(complex(x)) for x in row] for row in m])
    return H


def library_input(cfg, values):
    """Build the objects handed to block_diagonalize for this cfg."""
    import sympy
    from scipy import sparse

    k = cfg["k"]
    z = (0,) * k
    N = sum(cfg["sizes"])
    E = cfg["E"]
    rep = cfg["repr"]
    cplxE = any(e[1] for e in E)
    if rep == "sympy":

        def conv(m):
            from fractions import Fraction

            def rat(x):
                f = Fraction(float(x))
                return sympy.Rational(f.numerator, f.denominator)

            return sympy.Matrix(N, N, lambda i, j: rat(m[i, j].real) + sympy.I * rat(m[i, j].imag))

        h0 = sympy.diag(*[sympy.Integer(e[0]) + sympy.I * sympy.Integer(e[1]) for e in E])
    elif rep == "dense":
        conv = lambda m: np.array(m, dtype=complex)  # noqa: E731
        h0 = np.diag(np.array([complex(e[0], e[1]) for e in E]))
        if not cplxE:
            h0 = h0.real.astype(float)
    elif rep == "float":
        conv = lambda m: np.array(m.real, dtype=float)  # noqa: E731
        h0 = np.diag(np.array([float(e[0]) for e in E]))
    elif rep == "int":  # integer-typed arrays (values are small integers)
        conv = lambda m: np.array(np.rint(m.real), dtype=np.int64)  # noqa: E731
        h0 = np.diag(np.array([int(e[0]) for e in E], dtype=np.int64))
    elif rep == "csr-int":  # sparse arrays with an integer dtype
        conv = lambda m: sparse.csr_array(np.array(np.rint(m.real), dtype=np.int64))  # noqa: E731
        h0 = sparse.csr_array(np.diag(np.array([int(e[0]) for e in E], dtype=np.int64)))
    elif rep == "fortran-ro":  # Fortran-ordered, read-only buffers

        def conv(m):
            a = np.asfortranarray(np.array(m, dtype=complex))
            a.flags.writeable = False
            return a

        h0 = np.diag(np.array([complex(e[0], e[1]) for e in E]))
        if not cplxE:
            h0 = h0.real.astype(float)
        h0.flags.writeable = False
    elif rep in ("csr", "csrm-blocks", "coom-blocks"):
        conv = lambda m: sparse.csr_array(np.array(m, dtype=complex))  # noqa: E731
        d = np.array([complex(e[0], e[1]) for e in E])
        h0 = sparse.csr_array(np.diag(d if cplxE else d.real))
    else:
        raise ValueError(rep)
    if cfg.get("noise") and rep in ("dense", "float", "csr"):
        # degenerate levels given with eigensolver-like noise: equal within atol, not bit-identical
        d = np.array([complex(e[0], e[1]) for e in E]).real.astype(float)
        seen = {}
        for a, e in enumerate(E):
            kth = seen.get(tuple(e), 0)
            seen[tuple(e)] = kth + 1
            if cfg["noise"] is True:
                d[a] = d[a] * (1 + kth * 2.0**-51)
            else:  # absolute splitting below a user-supplied atol
                d[a] = d[a] + kth * float(cfg["noise"])
        h0 = sparse.csr_array(np.diag(d)) if rep == "csr" else np.diag(d)
    Hd = {z: h0, **{tuple(o): conv(m) for o, m in values.items()}}
    kwargs = dict(subspace_indices=list(cfg.get("indices") or block_of(cfg["sizes"])), hermitian=cfg["hermitian"])
    if cfg.get("basis") == "RL":
        # the same problem written in a non-orthogonal basis: H -> T H T^-1 with a unimodular
        # integer T, handed over with explicit biorthogonal (R, L) subspace pairs
        T, Ti = unimodular(N)
        off = offsets(cfg["sizes"])
        e0 = np.diag(np.array([complex(e[0], e[1]) for e in E]))
        full = {z: T @ e0 @ Ti, **{tuple(o): T @ np.array(m, dtype=complex) @ Ti for o, m in values.items()}}
        if rep == "sympy":
            toS = lambda m: sympy.Matrix(N, N, lambda i, j: sympy.Integer(round(m[i, j].real)) + sympy.I * sympy.Integer(round(m[i, j].imag)))  # noqa: E731
            Hd = {o: toS(m) for o, m in full.items()}
            pairs = tuple((toS(T)[:, off[b] : off[b + 1]], toS(Ti.conj().T)[:, off[b] : off[b + 1]]) for b in range(len(cfg["sizes"])))
        else:
            Hd = {o: (sparse.csr_array(m) if rep == "csr" else m) for o, m in full.items()}
            pairs = tuple((T[:, off[b] : off[b + 1]].astype(complex), Ti.conj().T[:, off[b] : off[b + 1]].astype(complex)) for b in range(len(cfg["sizes"])))
        kwargs = dict(subspace_eigenvectors=pairs, hermitian=cfg["hermitian"])
    if len(cfg["sizes"]) == 1 and cfg.get("no_indices"):
        kwargs.pop("subspace_indices")
    if rep in ("csrm-blocks", "coom-blocks") and not cfg.get("indices") and cfg.get("basis") != "RL":
        # legacy scipy.sparse *matrix* classes, handed over already separated into blocks
        cls = sparse.csr_matrix if rep == "csrm-blocks" else sparse.coo_matrix
        off = offsets(cfg["sizes"])
        nb = len(cfg["sizes"])

        def blocks(m):
            d = m.toarray() if sparse.issparse(m) else np.asarray(m)
            return [[cls(d[off[i] : off[i + 1], off[j] : off[j + 1]]) for j in range(nb)] for i in range(nb)]

        Hd = {o: blocks(m) for o, m in Hd.items()}
        kwargs.pop("subspace_indices", None)
    if cfg.get("atol") is not None:
        kwargs["atol"] = float(cfg["atol"])
    if cfg.get("mask") is not None:
        md = {int(b): np.array(m, dtype=bool) for b, m in cfg["mask"].items()}
        if cfg.get("repr") != "sympy":
            # 0/1 masks are accepted in any integer dtype: the dtype is a deterministic function of the configuration
            md = {b: m.astype((bool, int, np.int8, np.uint8)[(int(m.sum()) + b + len(m)) % 4]) for b, m in md.items()}
        if cfg.get("bare"):
            kwargs["fully_diagonalize"] = md[0]
        else:
            kwargs["fully_diagonalize"] = md
    elif cfg.get("fd"):
        kwargs["fully_diagonalize"] = tuple(cfg["fd"])
    return Hd, kwargs


def unimodular(N):
    """A fixed integer matrix with determinant 1 and its (integer) inverse."""
    U = np.eye(N) + np.triu(np.ones((N, N)), 1)
    Lo = np.eye(N) + np.tril(np.ones((N, N)), -1) * 2
    T = U @ Lo
    Ti = np.round(np.linalg.inv(T))
    assert np.allclose(T @ Ti, np.eye(N))
    return T, Ti


def block_to_np(v, shape):
    """Library element -> object/complex ndarray of given block shape (sentinels resolved)."""
    import sympy
    from scipy import sparse

    from pymablock.series import one, zero

    if v is zero:
        return None
    if v is one:
        return np.eye(shape[0], dtype=object)
    if sparse.issparse(v):
        v = v.toarray()
    if isinstance(v, sympy.MatrixBase):
        v = np.array(v.tolist(), dtype=object)
    v = np.asarray(v)
    if v.shape != shape:
        raise ValueError(f"block has shape {v.shape}, expected {shape}")
    return v


def assemble(series, sizes, n, exact=True, pos=None, rev=False):
    """Full N x N matrix (state order) of a block series at multi-order n (M if exact else NP)."""
    if pos is None:
        off = offsets(sizes)
        pos = [list(range(off[b], off[b + 1])) for b in range(len(sizes))]
    N = sum(len(p) for p in pos)
    nb = len(pos)
    arr = np.zeros((N, N), dtype=complex) if not exact else None
    out = M.zeros(N) if exact else None
    order = [(i, j) for i in range(nb) for j in range(nb)]
    if rev:  # lower triangle first
        order.reverse()
    for i, j in order:
        if True:
            v = block_to_np(series[(i, j) + tuple(n)], (len(pos[i]), len(pos[j])))
            if v is None:
                continue
            if not exact:
                arr[np.ix_(pos[i], pos[j])] = v.astype(complex)
            else:
                for a, ga in enumerate(pos[i]):
                    for b, gb in enumerate(pos[j]):
                        out.a[ga][gb] = q(v[a, b])
    return NP(arr) if not exact else out


class LibraryRejected(Exception):
    """The library refused the input with one of its documented rejection exceptions."""


REJECTIONS = (ValueError, TypeError, NotImplementedError)


def run_library(cfg, seed, request_order="asc"):
    """Run block_diagonalize on cfg; return (values, dict name -> {order: M}) for all orders
    with total <= cfg['total'].  Raises LibraryRejected for documented rejections; any other
    exception propagates (and is a finding for the caller to report)."""
    values = gen_values(cfg, seed)
    return run_library_values(cfg, values, request_order)


def run_library_values(cfg, values, request_order="asc"):
    """Same as run_library but with explicit term values {order: complex ndarray}; cfg['k']
    must match the order tuples."""
    from pymablock import block_diagonalize

    Hd, kwargs = library_input(cfg, values)
    try:
        Ht, U, Ui = block_diagonalize(Hd, **kwargs)
    except REJECTIONS as e:
        raise LibraryRejected(f"{type(e).__name__}: {e}") from e
    orders = orders_upto_total(cfg["k"], cfg["total"])
    seq = orders if request_order == "asc" else list(reversed(orders))
    out = {"U": {}, "Uinv": {}, "Ht": {}}
    exact = cfg["repr"] == "sympy"
    for n in seq:
        for name, s in (("Ht", Ht), ("U", U), ("Uinv", Ui)):
            out[name][n] = assemble(s, cfg["sizes"], n, exact, positions(cfg), rev=request_order != "asc")
    return values, out, (Ht, U, Ui)


RTOL = 1e-9


def close(lib, ref, scale: float, exact: bool):
    """Equality test: exact for exact representations, scaled tolerance for floats."""
    if exact:
        return lib == ref
    a, b = lib.tonp(), ref.tonp()
    if not np.isfinite(a).all():
        return False
    d = np.abs(a - b).max() if a.size else 0.0
    return bool(d <= RTOL * max(1.0, scale))


def structures(Nmax, hermitian=True, ks=(1, 2), maxparts=3, Nmin=2, patterns=None,
               placements=(0,), complex_levels=False, supports=None):
    """Structures = sizes x levels x k x support x pattern x fully_diagonalize subset."""
    for N in range(Nmin, Nmax + 1):
        for sizes in compositions(N, maxparts):
            nb = len(sizes)
            for placement in placements:
                for E in level_patterns(sizes, placement, complex_levels):
                    for k in ks:
                        for sup in (supports or SUPPORTS)[k]:
                            pats = patterns or ("dense", "diag", "offdiag", "arrow")
                            for pat in pats:
                                if pat == "offdiag" and nb == 1:
                                    continue
                                if pat == "arrow" and nb < 3:
                                    continue
                                for r in range(nb + 1):
                                    for fd in itertools.combinations(range(nb), r):
                                        yield dict(
                                            sizes=list(sizes), E=E, k=k,
                                            support=[list(o) for o in sup], pattern=pat,
                                            fd=list(fd), mask=None, hermitian=hermitian,
                                        )


def mask_structures(Nmax, hermitian=True, Nmin=2, maxparts=3):
    """One designated block (each in turn) carries every admissible mask dict."""
    for N in range(Nmin, Nmax + 1):
        for sizes in compositions(N, maxparts):
            nb = len(sizes)
            for E in level_patterns(sizes, 0):
                off = offsets(sizes)
                for b in range(nb):
                    if sizes[b] < 2:
                        continue
                    Eb = [tuple(e) for e in E[off[b] : off[b + 1]]]
                    for m in sym_masks(sizes[b], Eb, hermitian):
                        yield dict(
                            sizes=list(sizes), E=E, k=1, support=[[1]], pattern="dense",
                            fd=None, mask={str(b): m}, hermitian=hermitian,
                        )


def is_H0_zero_single_block(cfg):
    """A single block whose H_0 is identically zero is rejected by the library by design."""
    return all(e == [0, 0] for e in cfg["E"])
