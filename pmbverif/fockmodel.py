"""Independent matrix model of the boson / ladder / spin-1/2 / fermion operator algebra on a
truncated Fock space.  Written from the (anti)commutation relations:

  bosons   : a|n> = sqrt(n)|n-1>, n = 0..D-1 (truncated from above)
  ladders  : l|n> = |n-1>, n in a window of D integer lattice sites (truncated at both ends)
  spins    : sigma_- = [[0,1],[0,0]] on its own factor, different spins and everything else commute
  fermions : Jordan-Wigner strings over the fermionic modes (in the given mode order)

It shares no code with pymablock.number_ordered_form; a NumberOrderedForm is evaluated from
its *term table*: creation operators (mode order) x f(N) x annihilation operators (reverse
mode order).
"""
from __future__ import annotations

import itertools
from functools import reduce

import numpy as np
import sympy


_LAMBDA = {}


def _types():
    from sympy.physics.quantum import pauli
    from sympy.physics.quantum.boson import BosonOp
    from sympy.physics.quantum.fermion import FermionOp

    from pymablock.number_ordered_form import LadderOp, NumberOperator, NumberOrderedForm

    return BosonOp, FermionOp, pauli, LadderOp, NumberOperator, NumberOrderedForm


class Space:
    def __init__(self, modes, D=6):
        """modes: annihilation operators (sympy objects) in NumberOrderedForm order."""
        BosonOp, FermionOp, pauli, LadderOp, NumberOperator, NOF = _types()
        self.modes = list(modes)
        self.D = D
        self.subs = {}  # numeric values for free scalar symbols (set by the caller)
        self.kind = []
        for m in self.modes:
            if isinstance(m, BosonOp):
                self.kind.append("b")
            elif isinstance(m, LadderOp):
                self.kind.append("l")
            elif isinstance(m, FermionOp):
                self.kind.append("f")
            else:
                self.kind.append("s")
        self.dims = [D if k in "bl" else 2 for k in self.kind]
        self.dim = int(np.prod(self.dims)) if self.dims else 1
        self._ann = {}
        self._num = {}
        ferm = [i for i, k in enumerate(self.kind) if k == "f"]
        self.lad_origin = D // 2
        for i, m in enumerate(self.modes):
            d = self.dims[i]
            k = self.kind[i]
            if k == "b":
                loc = np.diag(np.sqrt(np.arange(1, d)), 1)
                num = np.diag(np.arange(d)).astype(float)
            elif k == "l":
                loc = np.diag(np.ones(d - 1), 1)
                num = np.diag(np.arange(d) - self.lad_origin).astype(float)
            else:
                loc = np.array([[0, 1.0], [0, 0]])
                num = np.diag([0, 1.0])
            mats = [np.eye(x) for x in self.dims]
            if k == "f":
                for j in ferm:
                    if j < i:
                        mats[j] = np.diag([1.0, -1.0])
            mats[i] = loc
            self._ann[i] = reduce(np.kron, mats)
            mats = [np.eye(x) for x in self.dims]
            mats[i] = num
            self._num[i] = reduce(np.kron, mats)
        self.states = list(itertools.product(*[range(d) for d in self.dims]))

    def index_of(self, op):
        return self.modes.index(op)

    def ann(self, i):
        return self._ann[i]

    def numdiag(self, i):
        return np.diag(self._num[i])

    def interior(self, down, up):
        """Basis states that stay inside the truncation window under `down[i]` lowerings and
        `up[i]` raisings of every infinite mode i."""
        idx = []
        for k, st in enumerate(self.states):
            ok = True
            for i, (kind, d, n) in enumerate(zip(self.kind, self.dims, st)):
                if kind == "b" and n + up[i] > d - 1:
                    ok = False
                if kind == "l" and (n - down[i] < 0 or n + up[i] > d - 1):
                    ok = False
            if ok:
                idx.append(k)
        return np.array(idx, dtype=int)

    # ---- evaluation of library objects from their term table
    def nof_matrix(self, nof):
        ops = list(nof.operators)
        pos = [self.index_of(o) for o in ops]
        out = np.zeros((self.dim, self.dim), complex)
        placeholders = nof._number_operator_placeholders
        for powers, coeff in nof.args[1]:
            coeff = sympy.sympify(coeff)
            if self.subs:
                coeff = coeff.subs(self.subs)
            free = coeff.free_symbols
            if free - set(placeholders):
                raise ValueError(f"coefficient has foreign symbols: {free - set(placeholders)}")
            if free:
                key = (tuple(placeholders), coeff)
                f = _LAMBDA.get(key)
                if f is None:
                    f = _LAMBDA[key] = sympy.lambdify(placeholders, coeff, "numpy")
                with np.errstate(all="ignore"):
                    diag = np.broadcast_to(np.asarray(f(*[self.numdiag(p) for p in pos]), dtype=complex), (self.dim,)).copy()
            else:
                diag = np.full(self.dim, complex(coeff))
            left = np.eye(self.dim, dtype=complex)
            for p, pw in zip(pos, powers):
                if pw < 0:
                    left = left @ np.linalg.matrix_power(self._ann[p].conj().T, int(-pw))
            right = np.eye(self.dim, dtype=complex)
            for p, pw in reversed(list(zip(pos, powers))):
                if pw > 0:
                    right = right @ np.linalg.matrix_power(self._ann[p], int(pw))
            out += left @ np.diag(diag) @ right
        return out

    def shifts_of(self, nof):
        """Per infinite mode: maximal number of lowerings / raisings any term applies."""
        down = [0] * len(self.modes)
        up = [0] * len(self.modes)
        ops = list(nof.operators)
        for powers, _ in nof.args[1]:
            for o, pw in zip(ops, powers):
                i = self.index_of(o)
                if pw > 0:
                    down[i] = max(down[i], int(pw))
                elif pw < 0:
                    up[i] = max(up[i], int(-pw))
        return down, up

    # ---- evaluation of plain operator expressions by recursive descent
    def expr_matrix(self, expr):
        BosonOp, FermionOp, pauli, LadderOp, NumberOperator, NOF = _types()
        expr = sympy.sympify(expr)
        if isinstance(expr, NOF):
            return self.nof_matrix(expr)
        if self.subs and not isinstance(expr, NOF) and expr.free_symbols & set(self.subs):
            expr = expr.subs(self.subs)
        if not expr.has(BosonOp, LadderOp, FermionOp, pauli.SigmaOpBase, NumberOperator, NOF):
            return complex(expr) * np.eye(self.dim)
        if expr.is_Add:
            return sum(self.expr_matrix(a) for a in expr.args)
        if expr.is_Mul:
            return reduce(np.matmul, [self.expr_matrix(a) for a in expr.args])
        if expr.is_Pow:
            e = expr.exp
            b = self.expr_matrix(expr.base)
            if e.is_Integer and e > 0:
                return np.linalg.matrix_power(b, int(e))
            if not np.allclose(b, np.diag(np.diag(b))):
                raise ValueError("non-integer power of a non-diagonal operator")
            if e.has(BosonOp, LadderOp, FermionOp, pauli.SigmaOpBase, NumberOperator, NOF):
                # operator-valued exponent (2**N): both base and exponent must be diagonal
                em = self.expr_matrix(e)
                if not np.allclose(em, np.diag(np.diag(em))):
                    raise ValueError("non-diagonal operator in an exponent")
                with np.errstate(all="ignore"):
                    return np.diag(np.diag(b).astype(complex) ** np.diag(em).astype(complex))
            with np.errstate(all="ignore"):
                return np.diag(np.diag(b).astype(complex) ** complex(e))
        if isinstance(expr, NumberOperator):
            for i, m in enumerate(self.modes):
                if NumberOperator(m) == expr:
                    return self._num[i].astype(complex)
            raise KeyError(expr)
        if isinstance(expr, (BosonOp, FermionOp)):
            base = type(expr)(expr.name)
            A = self._ann[self.index_of(base)]
            return A if expr.is_annihilation else A.conj().T
        if isinstance(expr, LadderOp):
            base = expr if expr.is_annihilation else expr.adjoint()
            A = self._ann[self.index_of(base)]
            return A if expr.is_annihilation else A.conj().T
        if isinstance(expr, pauli.SigmaMinus):
            return self._ann[self.index_of(pauli.SigmaMinus(expr.name))]
        if isinstance(expr, pauli.SigmaPlus):
            return self._ann[self.index_of(pauli.SigmaMinus(expr.name))].conj().T
        if isinstance(expr, pauli.SigmaZ):
            i = self.index_of(pauli.SigmaMinus(expr.name))
            return 2 * self._num[i] - np.eye(self.dim)
        if isinstance(expr, pauli.SigmaX):
            A = self._ann[self.index_of(pauli.SigmaMinus(expr.name))]
            return A + A.conj().T
        if isinstance(expr, pauli.SigmaY):
            A = self._ann[self.index_of(pauli.SigmaMinus(expr.name))]
            return 1j * A - 1j * A.conj().T
        if isinstance(expr, sympy.Function):
            args = [self.expr_matrix(a) for a in expr.args]
            for a in args:
                if not np.allclose(a, np.diag(np.diag(a))):
                    raise ValueError("function of a non-diagonal operator")
            f = sympy.lambdify(sympy.symbols(f"x0:{len(args)}"), expr.func(*sympy.symbols(f"x0:{len(args)}")), "numpy")
            return np.diag(np.asarray(f(*[np.diag(a) for a in args]), dtype=complex))
        raise TypeError(type(expr))


def sorted_modes(ops):
    """Mode order used by NumberOrderedForm: by generator type, then by name."""
    from pymablock.number_ordered_form import generator_types

    return sorted(ops, key=lambda op: (generator_types.index(type(op)), str(op.name)))


def expr_shifts(space, expr):
    """Upper bounds (per mode) on the number of lowerings / raisings any intermediate state of
    the operator expression undergoes: sums take the maximum, products add up."""
    BosonOp, FermionOp, pauli, LadderOp, NumberOperator, NOF = _types()
    n = len(space.modes)
    zero = ([0] * n, [0] * n)
    expr = sympy.sympify(expr)
    if isinstance(expr, NOF):
        return space.shifts_of(expr)
    if expr.is_Add:
        parts = [expr_shifts(space, a) for a in expr.args]
        return ([max(p[0][i] for p in parts) for i in range(n)], [max(p[1][i] for p in parts) for i in range(n)])
    if expr.is_Mul:
        parts = [expr_shifts(space, a) for a in expr.args]
        tot = sum(max(max(p[0]), max(p[1])) if n else 0 for p in parts)
        # any intermediate state stays within the total number of ladder steps
        return ([min(tot, sum(p[0][i] + p[1][i] for p in parts)) for i in range(n)],
                [min(tot, sum(p[0][i] + p[1][i] for p in parts)) for i in range(n)])
    if expr.is_Pow and expr.exp.is_Integer and expr.exp > 0:
        d, u = expr_shifts(space, expr.base)
        e = int(expr.exp)
        return ([(a + b) * e for a, b in zip(d, u)], [(a + b) * e for a, b in zip(d, u)])
    if isinstance(expr, (BosonOp, FermionOp, LadderOp)):
        base = expr if expr.is_annihilation else expr.adjoint()
        if isinstance(expr, (BosonOp, FermionOp)):
            base = type(expr)(expr.name)
        i = space.index_of(base)
        d, u = [0] * n, [0] * n
        (d if expr.is_annihilation else u)[i] = 1
        return d, u
    return zero
