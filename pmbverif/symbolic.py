"""Fully symbolic runs on the smallest structures: the perturbation entries are independent real
symbols, so an identity that holds here holds for *all* values (exact polynomial identity test:
expand(lhs - rhs) == 0; no solver involved).  Reference recurrence re-implemented on sympy
matrices (same textbook equations as refsolve.hermitian / nonhermitian)."""
from __future__ import annotations

import sympy

from .exact import splits2, splits3
from .lattice import eliminate_mask, offsets


def symbolic_terms(N, orders, hermitian=True, style="real-pairs"):
    terms = {}
    for o in orders:
        tag = "".join(map(str, o))
        m = sympy.zeros(N, N)
        for i in range(N):
            for j in range(N):
                if style == "complex" and hermitian:
                    # plain complex symbols (no assumptions, no explicit imaginary unit) and their conjugates
                    if i == j:
                        m[i, j] = sympy.Symbol(f"d{tag}_{i}", real=True)
                    elif i < j:
                        c = sympy.Symbol(f"c{tag}_{i}{j}")
                        m[i, j] = c
                        m[j, i] = sympy.conjugate(c)
                elif hermitian:
                    if i == j:
                        m[i, j] = sympy.Symbol(f"d{tag}_{i}", real=True)
                    elif i < j:
                        a = sympy.Symbol(f"a{tag}_{i}{j}", real=True)
                        b = sympy.Symbol(f"b{tag}_{i}{j}", real=True)
                        m[i, j] = a + sympy.I * b
                        m[j, i] = a - sympy.I * b
                else:
                    a = sympy.Symbol(f"a{tag}_{i}{j}", real=True)
                    b = sympy.Symbol(f"b{tag}_{i}{j}", real=True)
                    m[i, j] = a + sympy.I * b
        terms[tuple(o)] = m
    return terms


def dagger(m):
    return m.H


def reference(H, E, R, orders, hermitian=True):
    N = len(E)
    z = orders[0]
    U = {z: sympy.eye(N)}
    G = {z: sympy.eye(N)}
    H0 = H[z]
    for n in orders[1:]:
        acc = sympy.zeros(N, N)
        for a, b in splits2(n):
            if a == z or b == z:
                continue
            acc += G[a] * U[b]
        rest = sympy.zeros(N, N)
        for a, b, c in splits3(n):
            if a == n or c == n or b not in H:
                continue
            rest += G[a] * H[b] * U[c]
        if hermitian:
            W = -acc / 2
            tot = rest + H0 * W + W * H0
            V = sympy.zeros(N, N)
            for i in range(N):
                for j in range(N):
                    if R[i][j]:
                        V[i, j] = -tot[i, j] / (E[i] - E[j])
            U[n] = (W + V).applyfunc(sympy.expand)
            G[n] = U[n].H.applyfunc(sympy.expand)
        else:
            US = sympy.zeros(N, N)
            for i in range(N):
                for j in range(N):
                    if not R[i][j]:
                        US[i, j] = -acc[i, j] / 2
            tot = rest - acc * H0 + H0 * US - US * H0
            UR = sympy.zeros(N, N)
            for i in range(N):
                for j in range(N):
                    if R[i][j]:
                        UR[i, j] = -tot[i, j] / (E[i] - E[j])
            U[n] = (US + UR).applyfunc(sympy.expand)
            G[n] = (-U[n] - acc).applyfunc(sympy.expand)
    Ht = {}
    for n in orders:
        tot = sympy.zeros(N, N)
        for a, b, c in splits3(n):
            if b in H:
                tot += G[a] * H[b] * U[c]
        Ht[n] = tot.applyfunc(sympy.expand)
    return U, G, Ht


def full_matrix(series, sizes, n):
    from pymablock.series import one, zero

    N = sum(sizes)
    off = offsets(sizes)
    out = sympy.zeros(N, N)
    for i in range(len(sizes)):
        for j in range(len(sizes)):
            v = series[(i, j) + tuple(n)]
            if v is zero:
                continue
            if v is one:
                v = sympy.eye(sizes[i])
            out[off[i] : off[i + 1], off[j] : off[j + 1]] = v
    return out


def is_zero(m):
    return all(sympy.expand(x) == 0 for x in m)


def run_symbolic(cfg, props):
    """cfg as in lattice (k = 1, contiguous blocks); returns list of violation strings."""
    from pymablock import block_diagonalize

    sizes = cfg["sizes"]
    N = sum(sizes)
    herm = cfg["hermitian"]
    total = cfg["total"]
    orders = [(t,) for t in range(total + 1)]
    E = [sympy.Integer(e[0]) + sympy.I * sympy.Integer(e[1]) for e in cfg["E"]]
    terms = symbolic_terms(N, [tuple(o) for o in cfg["support"]], herm, cfg.get("symstyle", "real-pairs"))
    H = {(0,): sympy.diag(*E), **terms}
    kwargs = dict(subspace_indices=[b for b, s in enumerate(sizes) for _ in range(s)], hermitian=herm)
    if cfg.get("fd"):
        kwargs["fully_diagonalize"] = tuple(cfg["fd"])
    outs = block_diagonalize(H, **kwargs)
    Ht = {n: full_matrix(outs[0], sizes, n) for n in orders}
    U = {n: full_matrix(outs[1], sizes, n) for n in orders}
    G = {n: full_matrix(outs[2], sizes, n) for n in orders}
    R = eliminate_mask(cfg)
    V = []
    z = (0,)
    for n in orders:
        if "C01" in props or "C05" in props:
            P = sympy.zeros(N, N)
            for a, b, c in splits3(n):
                if b in H:
                    P += G[a] * H[b] * U[c]
            D = (P - Ht[n]).applyfunc(sympy.expand)
            for i in range(N):
                for j in range(N):
                    if R[i][j]:
                        if sympy.expand(P[i, j]) != 0:
                            V.append(f"symbolic: (Uinv H U)[{n}][{i},{j}] is not identically zero on an eliminated element")
                        if sympy.expand(Ht[n][i, j]) != 0:
                            V.append(f"symbolic: H_tilde[{n}][{i},{j}] non-zero on an eliminated element")
                    elif D[i, j] != 0:
                        V.append(f"symbolic: (Uinv H U)[{n}][{i},{j}] differs from H_tilde")
        if "C02" in props or "C05" in props:
            for X, Y, lab in ((G, U, "Uinv U"), (U, G, "U Uinv")):
                P = sympy.zeros(N, N)
                for a, b in splits2(n):
                    P += X[a] * Y[b]
                target = sympy.eye(N) if n == z else sympy.zeros(N, N)
                if not is_zero(P - target):
                    V.append(f"symbolic: ({lab})[{n}] != delta")
            if herm:
                if not is_zero(G[n] - U[n].H):
                    V.append(f"symbolic: third output[{n}] is not the adjoint of U")
                if not is_zero(Ht[n] - Ht[n].H):
                    V.append(f"symbolic: H_tilde[{n}] is not Hermitian")
        if ("C03" in props or "C05" in props) and n != z:
            for i in range(N):
                for j in range(N):
                    if not R[i][j] and sympy.expand(U[n][i, j] - G[n][i, j]) != 0:
                        V.append(f"symbolic: gauge violated at order {n} element ({i},{j})")
        if len(V) > 4:
            break
    if ("C03" in props) and herm and not V:
        ref = reference(H, E, R, orders, True)
        for name, lib, r in (("U", U, ref[0]), ("Uinv", G, ref[1]), ("H_tilde", Ht, ref[2])):
            for n in orders:
                if not is_zero(lib[n] - r[n]):
                    V.append(f"symbolic: {name}[{n}] differs from the reference recurrence for generic (symbolic) values")
                    break
    return V
