"""CLI: python -m pmbverif.run <ID> [--tier quick|thorough] [--replay path] [--budget seconds]"""
import argparse
import importlib
import os
import sys

from . import common


def main():
    ap = argparse.ArgumentParser()
    ap.add_argument("id")
    ap.add_argument("--tier", default=os.environ.get("VERIF_TIER", "quick"))
    ap.add_argument("--replay", default=None)
    ap.add_argument("--budget", type=float, default=None)
    a = ap.parse_args()
    seed = int(os.environ.get("VERIF_SEED", "0"))
    mod = importlib.import_module(f"pmbverif.checks.{a.id.lower()}")
    rc = common.run_check(mod, a.tier, seed, budget_s=a.budget, replay=a.replay)
    sys.exit(rc)


if __name__ == "__main__":
    main()
