"""Exact Gaussian-rational scalars, dense matrices over them, and Cauchy products.

This module is the arithmetic core of every independent reference ("oracle") used by the
checks.  It deliberately shares nothing with pymablock: no BlockSeries, no sentinels, no
numpy linear algebra; full N x N matrices of `Q` values in nested lists.
"""
from __future__ import annotations

from fractions import Fraction as F
from itertools import product

import numpy as np
import sympy


class Q:
    """Gaussian rational number re + i*im with Fraction components."""

    __slots__ = ("re", "im")

    def __init__(self, re=0, im=0):
        self.re = F(re)
        self.im = F(im)

    def __add__(self, o):
        o = q(o)
        return Q(self.re + o.re, self.im + o.im)

    __radd__ = __add__

    def __neg__(self):
        return Q(-self.re, -self.im)

    def __sub__(self, o):
        o = q(o)
        return Q(self.re - o.re, self.im - o.im)

    def __rsub__(self, o):
        return q(o) - self

    def __mul__(self, o):
        o = q(o)
        return Q(self.re * o.re - self.im * o.im, self.re * o.im + self.im * o.re)

    __rmul__ = __mul__

    def conj(self):
        return Q(self.re, -self.im)

    def inv(self):
        d = self.re * self.re + self.im * self.im
        return Q(self.re / d, -self.im / d)

    def __truediv__(self, o):
        return self * q(o).inv()

    def __eq__(self, o):
        o = q(o)
        return self.re == o.re and self.im == o.im

    def __hash__(self):
        return hash((self.re, self.im))

    def iszero(self):
        return self.re == 0 and self.im == 0

    def __abs__(self):
        return abs(complex(self))

    def __repr__(self):
        if self.im:
            return f"({self.re}{'+' if self.im >= 0 else ''}{self.im}j)"
        return f"{self.re}"

    def __complex__(self):
        return complex(float(self.re), float(self.im))

    def tojson(self):
        return [str(self.re), str(self.im)]


def q(x) -> Q:
    """Exact conversion of a python/numpy/sympy scalar to Q (floats as binary fractions)."""
    if isinstance(x, Q):
        return x
    if isinstance(x, (bool, int, F)):
        return Q(x)
    if isinstance(x, float):
        return Q(F(x))
    if isinstance(x, complex):
        return Q(F(x.real), F(x.imag))
    if isinstance(x, np.integer):
        return Q(int(x))
    if isinstance(x, np.floating):
        return Q(F(float(x)))
    if isinstance(x, np.complexfloating):
        return Q(F(float(x.real)), F(float(x.imag)))
    if isinstance(x, np.bool_):
        return Q(int(x))
    if isinstance(x, sympy.Basic):
        return sym2q(x)
    raise TypeError(f"cannot convert {type(x)} to an exact Gaussian rational")


_memo: dict = {}


def sym2q(x) -> Q:
    r = _memo.get(x)
    if r is None:
        r = _sym2q(x)
        if len(_memo) > 200000:
            _memo.clear()
        _memo[x] = r
    return r


def _sym2q(x) -> Q:
    if x.is_Rational:
        return Q(F(int(x.p), int(x.q)))
    if x is sympy.I:
        return Q(0, 1)
    if x.is_Add:
        r = Q()
        for a in x.args:
            r = r + sym2q(a)
        return r
    if x.is_Mul:
        r = Q(1)
        for a in x.args:
            r = r * sym2q(a)
        return r
    if x.is_Pow and x.exp.is_Integer:
        b = sym2q(x.base)
        e = int(x.exp)
        if e < 0:
            b = b.inv()
            e = -e
        r = Q(1)
        for _ in range(e):
            r = r * b
        return r
    if isinstance(x, sympy.Float):
        return Q(F(float(x)))
    raise TypeError(f"not a Gaussian rational: {x!r}")


class M:
    """Dense matrix of Q."""

    def __init__(self, rows):
        self.a = [[q(x) for x in r] for r in rows]
        self.n = len(self.a)
        self.m = len(self.a[0]) if self.a else 0

    @staticmethod
    def zeros(n, m=None):
        m = n if m is None else m
        return M([[0] * m for _ in range(n)])

    @staticmethod
    def eye(n):
        return M([[1 if i == j else 0 for j in range(n)] for i in range(n)])

    @staticmethod
    def diag(vals):
        n = len(vals)
        return M([[vals[i] if i == j else 0 for j in range(n)] for i in range(n)])

    def __add__(self, o):
        return M([[x + y for x, y in zip(r, t)] for r, t in zip(self.a, o.a)])

    def __sub__(self, o):
        return M([[x - y for x, y in zip(r, t)] for r, t in zip(self.a, o.a)])

    def __neg__(self):
        return M([[-x for x in r] for r in self.a])

    def __matmul__(self, o):
        oT = list(zip(*o.a))
        return M([[sum((x * y for x, y in zip(r, c)), Q()) for c in oT] for r in self.a])

    def scale(self, c):
        c = q(c)
        return M([[x * c for x in r] for r in self.a])

    def H(self):
        return M([[self.a[i][j].conj() for i in range(self.n)] for j in range(self.m)])

    def T(self):
        return M([[self.a[i][j] for i in range(self.n)] for j in range(self.m)])

    def conj(self):
        return M([[x.conj() for x in r] for r in self.a])

    def mask(self, msk):
        return M(
            [[x if msk[i][j] else Q() for j, x in enumerate(r)] for i, r in enumerate(self.a)]
        )

    def iszero(self):
        return all(x.iszero() for r in self.a for x in r)

    def __eq__(self, o):
        return (self - o).iszero()

    def __getitem__(self, ij):
        return self.a[ij[0]][ij[1]]

    def sub(self, rows, cols):
        return M([[self.a[i][j] for j in cols] for i in rows])

    def tonp(self):
        return np.array([[complex(x) for x in r] for r in self.a], dtype=complex).reshape(
            self.n, self.m
        )

    def maxabs(self):
        return max((abs(x) for r in self.a for x in r), default=0.0)

    def isfinite(self):
        return True

    def tojson(self):
        return [[x.tojson() for x in r] for r in self.a]

    def __repr__(self):
        return "M(" + repr(self.a) + ")"


def orders_upto_total(k: int, total: int):
    """All multi-orders of k parameters with |n| <= total, sorted by (total, lexicographic)."""
    return sorted(
        (n for n in product(range(total + 1), repeat=k) if sum(n) <= total),
        key=lambda t: (sum(t), t),
    )


def orders_upto(bound):
    """All multi-orders componentwise <= bound, sorted by (total, lexicographic)."""
    return sorted(product(*(range(b + 1) for b in bound)), key=lambda t: (sum(t), t))


def splits2(n):
    for a in product(*(range(x + 1) for x in n)):
        yield a, tuple(x - y for x, y in zip(n, a))


def splits3(n):
    for a, r in splits2(n):
        for b, c in splits2(r):
            yield a, b, c


def cauchy(n, *series):
    """Order-n term of the Cauchy product of dict-series {order: M}; missing = zero.

    Returns an M (zero matrix of the right size when nothing contributes)."""
    size = None
    for s in series:
        for v in s.values():
            size = (v.n, v.m)
            break
        if size is not None:
            break
    tot = None

    def rec(k, rem, acc):
        nonlocal tot
        if k == len(series) - 1:
            v = series[k].get(rem)
            if v is None:
                return
            t = acc @ v if acc is not None else v
            tot = t if tot is None else tot + t
            return
        for a, r in splits2(rem):
            v = series[k].get(a)
            if v is None:
                continue
            rec(k + 1, r, (acc @ v) if acc is not None else v)

    rec(0, tuple(n), None)
    if tot is None:
        first = next(iter(series[0].values()))
        last = next(iter(series[-1].values()))
        return type(first).zeros(first.n, last.m)
    return tot


class NP:
    """numpy-complex twin of M (same small interface) for floating-point representations."""

    def __init__(self, arr):
        self.v = np.array(arr, dtype=complex)
        if self.v.ndim != 2:
            self.v = self.v.reshape(len(arr), -1)
        self.n, self.m = self.v.shape

    @staticmethod
    def zeros(n, m=None):
        return NP(np.zeros((n, n if m is None else m), dtype=complex))

    @staticmethod
    def eye(n):
        return NP(np.eye(n, dtype=complex))

    def __add__(self, o):
        return NP(self.v + o.v)

    def __sub__(self, o):
        return NP(self.v - o.v)

    def __neg__(self):
        return NP(-self.v)

    def __matmul__(self, o):
        return NP(self.v @ o.v)

    def scale(self, c):
        return NP(self.v * complex(c))

    def H(self):
        return NP(self.v.conj().T)

    def T(self):
        return NP(self.v.T)

    def conj(self):
        return NP(self.v.conj())

    def mask(self, msk):
        return NP(np.where(np.array(msk, dtype=bool), self.v, 0))

    def sub(self, rows, cols):
        return NP(self.v[np.ix_(rows, cols)])

    def tonp(self):
        return self.v

    def maxabs(self):
        return float(np.abs(self.v).max()) if self.v.size else 0.0

    def isfinite(self):
        return bool(np.isfinite(self.v).all())

    def tojson(self):
        return [[[x.real, x.imag] for x in r] for r in self.v.tolist()]

    def __repr__(self):
        return f"NP({self.v.tolist()})"


def to_np(x) -> NP:
    return x if isinstance(x, NP) else NP(x.tonp())
