"""Second-interpreter determinism guard: python -m pmbverif.rerun <module>  (cases as JSON on stdin).
Started by common.run_check with PYTHONHASHSEED=1; prints one JSON line per case with the outcome
and the sorted violation texts."""
import importlib
import json
import sys
import warnings


def main():
    mod = importlib.import_module(sys.argv[1])
    cases = json.load(sys.stdin)
    out = []
    for case in cases:
        try:
            with warnings.catch_warnings():
                warnings.simplefilter("ignore")
                r = mod.run_case(case)
            out.append({"outcome": str(r.get("outcome")), "violations": sorted(v["what"] for v in r["violations"])})
        except BaseException as e:  # noqa: BLE001
            out.append({"outcome": "crash", "violations": [f"{type(e).__name__}: {e}"]})
    json.dump(out, sys.stdout)


if __name__ == "__main__":
    main()
