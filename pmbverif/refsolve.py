"""Independent reference solvers (exact arithmetic, textbook recurrences, explicit H_0 products).

Inputs everywhere: H = {multi-order: M (full N x N)} with H[0] diagonal, E = list of the N
unperturbed energies (Q-convertible), R = N x N boolean "eliminate" mask, and the list of
multi-orders to compute (must be downward closed and sorted by total order).
"""
from __future__ import annotations

from fractions import Fraction as F

from .exact import M, Q, q, cauchy, splits2, splits3


def hermitian(H, E, R, orders):
    """Least-action unitary U with (U^dagger H U)_R = 0 and anti-Hermitian part of U in R only."""
    N = len(E)
    z = orders[0]
    assert not any(z)
    U = {z: M.eye(N)}
    H0 = H[z]
    Eq = [q(e) for e in E]
    for n in orders[1:]:
        acc = M.zeros(N)
        for a, b in splits2(n):
            if a == z or b == z:
                continue
            acc = acc + U[a].H() @ U[b]
        W = acc.scale(Q(F(-1, 2)))
        rest = M.zeros(N)
        for a, b, c in splits3(n):
            if a == n or c == n:
                continue
            if b not in H:
                continue
            rest = rest + U[a].H() @ H[b] @ U[c]
        tot = rest + H0 @ W + W @ H0
        V = M.zeros(N)
        for i in range(N):
            for j in range(N):
                if R[i][j]:
                    d = Eq[i] - Eq[j]
                    if d.iszero():
                        raise ZeroDivisionError("degenerate eliminated pair")
                    # (U†HU)_ij at order n = tot_ij + (H0 V - V H0)_ij... with V† = -V:
                    # V†H0 + H0 V = H0 V - V H0 -> (E_i - E_j) V_ij
                    V.a[i][j] = -(tot.a[i][j]) / d
        U[n] = W + V
    Ud = {n: u.H() for n, u in U.items()}
    Ht = {n: cauchy(n, Ud, H, U) for n in orders}
    return U, Ud, Ht


def nonhermitian(H, E, R, orders):
    """Similarity transform: G = U^{-1}, (G H U)_R = 0, gauge (U - G)_S = 0."""
    N = len(E)
    z = orders[0]
    U = {z: M.eye(N)}
    G = {z: M.eye(N)}
    S = [[not R[i][j] for j in range(N)] for i in range(N)]
    H0 = H[z]
    Eq = [q(e) for e in E]
    for n in orders[1:]:
        acc = M.zeros(N)  # sum_{a,b != 0} G_a U_b ;  G_n = -U_n - acc
        for a, b in splits2(n):
            if a == z or b == z:
                continue
            acc = acc + G[a] @ U[b]
        # gauge: (U_n - G_n)_S = (2 U_n + acc)_S = 0
        US = acc.scale(Q(F(-1, 2))).mask(S)
        rest = M.zeros(N)
        for a, b, c in splits3(n):
            if a == n or c == n:
                continue
            if b not in H:
                continue
            rest = rest + G[a] @ H[b] @ U[c]
        # order n of G H U = H0 U_n + G_n H0 + rest = H0 U_n - U_n H0 - acc H0 + rest
        tot = rest - acc @ H0 + H0 @ US - US @ H0
        UR = M.zeros(N)
        for i in range(N):
            for j in range(N):
                if R[i][j]:
                    d = Eq[i] - Eq[j]
                    if d.iszero():
                        raise ZeroDivisionError("degenerate eliminated pair")
                    UR.a[i][j] = -(tot.a[i][j]) / d
        U[n] = US + UR
        G[n] = -(U[n]) - acc
    Ht = {n: cauchy(n, G, H, U) for n in orders}
    return U, G, Ht


def nonhermitian_literal(H, E, R, orders):
    """The documented closed recurrences (docs nonhermitian_algorithm.md) taken literally,
    i.e. with X_S = [H'_S, U']_S (no [H_0, U'_S] term).  Only used to recognise finding K1."""
    N = len(E)
    z = orders[0]
    S = [[not R[i][j] for j in range(N)] for i in range(N)]
    Z = M.zeros(N)
    HS = {o: m.mask(S) for o, m in H.items() if o != z}
    HR = {o: m.mask(R) for o, m in H.items() if o != z}
    Up, G, X, B = {}, {}, {}, {}
    Ht = {z: H[z]}
    Eq = [q(e) for e in E]

    def prod(n, P, Qs):
        acc = M.zeros(N)
        for a, b in splits2(n):
            if a in P and b in Qs:
                acc = acc + P[a] @ Qs[b]
        return acc

    for n in orders[1:]:
        GU = prod(n, G, Up)
        A = prod(n, HR, Up)
        comm = prod(n, HS, Up) - prod(n, Up, HS)
        GB = prod(n, G, B)
        XR = -((HR.get(n, Z) + A + GB).mask(R))
        XS = comm.mask(S)
        X[n] = XR + XS
        B[n] = X[n] + HR.get(n, Z) + A
        rhs = XR - comm.mask(R)
        UR = M.zeros(N)
        for i in range(N):
            for j in range(N):
                if R[i][j]:
                    UR.a[i][j] = rhs.a[i][j] / (Eq[i] - Eq[j])
        US = GU.scale(Q(F(-1, 2))).mask(S)
        Up[n] = US + UR
        G[n] = -(Up[n]) - GU
        Ht[n] = HS.get(n, Z) + (B[n] + GB).mask(S)
    U = {z: M.eye(N), **Up}
    Gi = {z: M.eye(N), **G}
    return U, Gi, Ht
