"""Explicit-state exploration of request histories on a *live* pymablock computation.

state      = content of every mutable store of one computation: the `_data` cache of every
             BlockSeries reachable from the outputs (internal series, linear-operator twins,
             product series, the input series and the scalar series behind it), every `set`
             held in a closure of a scope function (the `index_checked` set of the default
             Sylvester solver), plus harness-owned logs (user-eval call log)
canon      = sorted (store name, sorted (key, value fingerprint)) -- PENDING is a value
transition = restore(state); observation = world.request(letter); snapshot()
search     = breadth-first from the post-construction state, dedup on canon

Live objects cannot be deep-copied (closures refer to the original objects), so snapshots are
shallow copies restored in place.  Conformance: shortest histories are replayed on freshly
built worlds and must reach the same canonical state and the same observations.
"""
from __future__ import annotations

import collections
import hashlib
import types

import numpy as np


_L = {}


def _lib():
    if not _L:
        import sympy
        from scipy import sparse
        from scipy.sparse.linalg import LinearOperator

        from pymablock.series import PENDING, one, zero

        _L.update(sympy=sympy, sparse=sparse, LinearOperator=LinearOperator, PENDING=PENDING, one=one, zero=zero)
    return _L


def fingerprint(v) -> str:
    """Stable content hash of a series element (bitwise for numeric arrays)."""
    if type(v) is np.ndarray and v.dtype != object:
        a = v if v.dtype == complex and v.flags.c_contiguous else np.ascontiguousarray(v, dtype=complex)
        return "nd" + str(a.shape) + hashlib.md5(a.tobytes()).hexdigest()[:12]
    L = _lib()
    sympy, sparse, LinearOperator = L["sympy"], L["sparse"], L["LinearOperator"]
    if v is L["zero"]:
        return "0"
    if v is L["one"]:
        return "1"
    if v is L["PENDING"]:
        return "PENDING"
    if v is np.ma.masked:
        return "masked"
    if isinstance(v, np.ma.MaskedArray):
        flat = [fingerprint(x) if not m else "masked" for x, m in zip(v.data.ravel(), np.ma.getmaskarray(v).ravel())]
        return "ma" + str(v.shape) + hashlib.md5("|".join(flat).encode()).hexdigest()[:12]
    if sparse.issparse(v):
        c = v.tocsr().copy()
        c.sum_duplicates()
        c.sort_indices()
        h = hashlib.md5()
        for part in (c.indptr, c.indices, np.asarray(c.data, dtype=complex)):
            h.update(np.ascontiguousarray(part).tobytes())
        return "sp" + str(c.shape) + h.hexdigest()[:12]
    if isinstance(v, sympy.MatrixBase):
        return "sy" + hashlib.md5(sympy.srepr(v).encode()).hexdigest()[:12]
    if isinstance(v, sympy.Basic):
        return "se" + hashlib.md5(sympy.srepr(v).encode()).hexdigest()[:12]
    if isinstance(v, LinearOperator):
        n = v.shape[1]
        dense = v @ np.eye(n)
        return "lo" + fingerprint(np.round(np.asarray(dense, dtype=complex), 9) + 0.0)
    if isinstance(v, np.ndarray) and v.dtype == object:
        return "ob" + str(v.shape) + hashlib.md5("|".join(fingerprint(x) for x in v.ravel()).encode()).hexdigest()[:12]
    if isinstance(v, (np.ndarray, np.generic, int, float, complex)):
        a = np.ascontiguousarray(np.asarray(v, dtype=complex))
        return "nd" + str(a.shape) + hashlib.md5(a.tobytes()).hexdigest()[:12]
    if isinstance(v, (tuple, list)):
        return "tu" + hashlib.md5("|".join(fingerprint(x) for x in v).encode()).hexdigest()[:12]
    if hasattr(v, "name") and type(v).__name__ == "AlgebraElement":
        return "ae" + hashlib.md5(v.name.encode()).hexdigest()[:12]
    if L.get("BlockSeries") is None:
        from pymablock.series import BlockSeries

        L["BlockSeries"] = BlockSeries
    if isinstance(v, L["BlockSeries"]):
        return f"view{v.shape}x{v.n_infinite}"
    return "py" + hashlib.md5(repr(v).encode()).hexdigest()[:12]


def to_dense(v):
    """Numeric dense view of an element for tolerance comparisons (None for sentinels)."""
    from scipy import sparse
    from scipy.sparse.linalg import LinearOperator

    from pymablock.series import one, zero

    if v is zero or v is one:
        return None
    if sparse.issparse(v):
        return v.toarray().astype(complex)
    if isinstance(v, LinearOperator):
        return np.asarray(v @ np.eye(v.shape[1]), dtype=complex)
    try:
        return np.asarray(v, dtype=complex)
    except Exception:
        return None


def collect_stores(roots):
    """Walk closures / eval scopes from the given objects; return ordered list of
    (name, object) for every BlockSeries and every closure-held set."""
    from pymablock.series import BlockSeries

    seen = set()
    series = []
    sets = []
    stack = list(roots)
    while stack:
        o = stack.pop()
        if id(o) in seen:
            continue
        seen.add(id(o))
        if isinstance(o, BlockSeries):
            series.append(o)
            stack.append(o.eval)
        elif isinstance(o, (types.FunctionType, types.MethodType)):
            f = o.__func__ if isinstance(o, types.MethodType) else o
            for cell in f.__closure__ or ():
                try:
                    stack.append(cell.cell_contents)
                except ValueError:
                    pass
            g = f.__globals__
            if "linear_operator_series" in g and "series" in g and "del_" in g:
                stack.append(g["series"])
                stack.append(g["linear_operator_series"])
                for key in ("solve_sylvester", "diag", "offdiag"):
                    if g.get(key) is not None:
                        stack.append(g[key])
        elif isinstance(o, dict):
            stack.extend(o.values())
        elif isinstance(o, (list, tuple)):
            stack.extend(x for x in o if isinstance(x, (BlockSeries, types.FunctionType, dict, list, tuple, set)))
        elif isinstance(o, set):
            sets.append(o)
    # deterministic order: by creation-independent key (name, shape, discovery order is
    # deterministic because the walk is)
    series.reverse()
    out = []
    cnt = collections.Counter()
    for s in series:
        nm = s.name if not s.name.startswith("Series_") else "anon"
        cnt[nm] += 1
        out.append((f"{nm}#{cnt[nm]}", s))
    for i, st in enumerate(sets):
        out.append((f"set#{i}", st))
    return out


class World:
    """A live computation + its stores.  Subclasses/instances provide request()."""

    def __init__(self, roots, extra_stores=()):
        self.stores = collect_stores(roots) + list(extra_stores)
        self.registry = {}  # id(value) -> (value, fingerprint at first sight)

    # -- snapshot / restore
    def snapshot(self):
        snap = []
        for _, o in self.stores:
            if hasattr(o, "_data"):
                snap.append(dict(o._data))
            elif isinstance(o, set):
                snap.append(set(o))
            elif isinstance(o, list):
                snap.append(list(o))
            else:
                raise TypeError(type(o))
        return snap

    def restore(self, snap):
        for (_, o), d in zip(self.stores, snap):
            if hasattr(o, "_data"):
                o._data = dict(d)
            elif isinstance(o, set):
                o.clear()
                o.update(d)
            else:
                o[:] = d

    def canon(self, check_mutation=True):
        """Canonical state + list of mutation reports (value whose content changed since it
        was first seen under the same identity)."""
        parts = []
        mutated = []
        for name, o in self.stores:
            if hasattr(o, "_data"):
                items = []
                for k, v in o._data.items():
                    reg = self.registry.get(id(v))
                    if reg is not None and reg[0] is v and reg[2]:
                        items.append((k, reg[1]))
                        continue
                    fp = fingerprint(v)
                    if check_mutation:
                        if reg is None:
                            self.registry[id(v)] = (v, fp, fp[:2] in ("sy", "se", "lo"))
                        elif reg[0] is v and reg[1] != fp:
                            mutated.append((name, k))
                    items.append((k, fp))
                parts.append((name, tuple(sorted(items))))
            elif isinstance(o, set):
                parts.append((name, tuple(sorted(o))))
            else:
                parts.append((name, tuple(sorted(map(repr, o)))))
        return tuple(parts), mutated

    def pending(self):
        from pymablock.series import PENDING

        return [(n, k) for n, o in self.stores if hasattr(o, "_data") for k, v in o._data.items() if v is PENDING]


def bfs(build, alphabet, request, invariant=None, depthcap=None, statecap=None,
        validate_stride=1, validate_cap=None):
    """Breadth-first exploration.

    build() -> World ; request(world, letter) -> observation (hashable)
    invariant(world, hist, letter, obs) -> list of violation strings
    Returns dict(states, transitions, maxdepth, complete, violations, validated, samples)."""
    world = build()
    init = world.snapshot()
    c0, _ = world.canon()
    seen = {c0: ()}
    order = [((), c0)]
    frontier = collections.deque([((), init)])
    transitions = 0
    violations = []
    maxdepth = 0
    obs_seen = collections.Counter()
    complete = True
    edge_obs = {}
    while frontier:
        hist, snap = frontier.popleft()
        if depthcap is not None and len(hist) >= depthcap:
            complete = False
            continue
        for letter in alphabet:
            world.restore(snap)
            try:
                obs = request(world, letter)
            except Exception as e:  # noqa: BLE001
                obs = f"EXC:{type(e).__name__}:{str(e)[:80]}"
            transitions += 1
            obs_seen[obs if isinstance(obs, str) else str(obs)] += 1
            c, mutated = world.canon()
            for m in mutated:
                violations.append(dict(hist=list(hist), letter=letter, what=f"cached value mutated in place: {m}"))
            pend = world.pending()
            if pend:
                violations.append(dict(hist=list(hist), letter=letter, what=f"PENDING left in cache between requests: {pend[:3]}"))
            if invariant is not None:
                for w in invariant(world, hist, letter, obs):
                    violations.append(dict(hist=list(hist), letter=letter, what=w))
            if c not in seen:
                seen[c] = hist + (letter,)
                edge_obs[c] = obs
                order.append((hist + (letter,), c))
                maxdepth = max(maxdepth, len(hist) + 1)
                if statecap is not None and len(seen) >= statecap:
                    complete = False
                    frontier.clear()
                    break
                frontier.append((hist + (letter,), world.snapshot()))
        if len(violations) > 50:
            complete = False
            break
    # conformance of snapshot/restore: replay shortest histories on fresh worlds
    validated = 0
    conformance_errors = []
    todo = order[1::validate_stride]
    if validate_cap is not None and len(todo) > validate_cap:
        step = len(todo) / validate_cap
        todo = [todo[int(i * step)] for i in range(validate_cap)]
    for hist, c in todo:
        w = build()
        obs = None
        for letter in hist:
            try:
                obs = request(w, letter)
            except Exception as e:  # noqa: BLE001
                obs = f"EXC:{type(e).__name__}:{str(e)[:80]}"
        c2, _ = w.canon(check_mutation=False)
        if c2 != c or obs != edge_obs[c]:
            conformance_errors.append(list(hist))
        validated += 1
    return dict(
        states=len(seen), transitions=transitions, maxdepth=maxdepth, complete=complete,
        violations=violations, validated=validated, conformance_errors=conformance_errors,
        distinct_observations=len(obs_seen),
        sample_histories=[list(h) for h, _ in order[-3:]],
    )
