"""Builders of small live computations used by the history/fault explorers (C10, C11, C12)."""
from __future__ import annotations

import numpy as np

from .statespace import World, fingerprint, to_dense


def herm_matrix(N, tag, hermitian=True, real=False):
    rng = np.random.default_rng([tag, 4242])
    a = rng.integers(-3, 4, (N, N)).astype(complex)
    if not real:
        a = a + 1j * rng.integers(-3, 4, (N, N))
    if hermitian:
        a = np.triu(a, 1) + np.triu(a, 1).conj().T + np.diag(np.diag(a).real)
    return a


SPECS = {
    # name: dict(sizes, E, k, hermitian, fd, mask, repr, implicit)
    "H22": dict(sizes=(2, 2), E=(0, 1, 3, 7), k=1, hermitian=True),
    "H121": dict(sizes=(1, 2, 1), E=(0, 1, 3, 7), k=1, hermitian=True),
    "H22fd0": dict(sizes=(2, 2), E=(0, 1, 3, 7), k=1, hermitian=True, fd=(0,)),
    "H3mask": dict(sizes=(3,), E=(0, 1, 3), k=1, hermitian=True,
                   mask={0: [[0, 1, 0], [1, 0, 0], [0, 0, 0]]}),
    "H21mask": dict(sizes=(2, 1), E=(0, 1, 3), k=1, hermitian=True, mask={0: [[0, 1], [1, 0]]}),
    # ill-posed: blocks 0 and 2 share an unperturbed level; every request must behave as on a fresh computation
    "H111shared": dict(sizes=(1, 1, 1), E=(1, 5, 1), k=1, hermitian=True),
    "N111shared": dict(sizes=(1, 1, 1), E=(1, 5, 1), k=1, hermitian=False),
    # second-quantised: three internal levels, one boson, each level its own block
    "SQ3": dict(sizes=(1, 1, 1), E=(0, 0, 0), k=1, hermitian=True, sq=True),
    "N22": dict(sizes=(2, 2), E=(0, 1, 3, 7), k=1, hermitian=False),
    "N21fd": dict(sizes=(2, 1), E=(0, 1, 3), k=1, hermitian=False, fd=(0,)),
    "H22k2": dict(sizes=(2, 2), E=(0, 1, 3, 7), k=2, hermitian=True),
    # sparse and dense perturbation terms mixed in one Hamiltonian, fully diagonalised blocks (masks meet both containers)
    "H3k2mixfd": dict(sizes=(3,), E=(0, 1, 3), k=2, hermitian=True, fd=(0,), repr="mixed"),
    "H21k2mixfd": dict(sizes=(2, 1), E=(0, 1, 3), k=2, hermitian=True, fd=(0,), repr="mixed"),
    "H22sym": dict(sizes=(2, 2), E=(0, 1, 3, 7), k=1, hermitian=True, repr="sympy"),
    "H22csr": dict(sizes=(2, 2), E=(0, 1, 3, 7), k=1, hermitian=True, repr="csr"),
    "I23": dict(sizes=(2,), E=(0, 1, 3, 7, 12), k=1, hermitian=True, implicit=True),
    "I113": dict(sizes=(1, 1), E=(0, 1, 3, 7, 12), k=1, hermitian=True, implicit=True),
    "NI23": dict(sizes=(2,), E=(0, 1, 3, 7, 12), k=1, hermitian=False, implicit=True),
}


def make_inputs(spec):
    """The caller-side objects: a dict {order: matrix} and kwargs for block_diagonalize."""
    import sympy
    from scipy import sparse

    if spec.get("sq"):
        from sympy.physics.quantum import Dagger
        from sympy.physics.quantum.boson import BosonOp

        from pymablock.number_ordered_form import NumberOperator

        a = BosonOp("a")
        Nn = NumberOperator(a)
        R_ = sympy.Rational
        h = Nn + Nn**2 / 9
        H0 = sympy.diag(h, h + R_(3, 2), h + R_(23, 5))
        H1 = sympy.Matrix([[a + Dagger(a), a + 2 * Dagger(a), 2 * a - Dagger(a)],
                           [Dagger(a) + 2 * a, 0, a + 3 * Dagger(a)],
                           [2 * Dagger(a) - a, Dagger(a) + 3 * a, -(a + Dagger(a))]])
        return {(0,): H0, (1,): H1}, dict(subspace_indices=[0, 1, 2], hermitian=True)
    sizes = spec["sizes"]
    E = spec["E"]
    N = len(E)
    k = spec["k"]
    herm = spec["hermitian"]
    rep = spec.get("repr", "dense")
    z = (0,) * k
    terms = {}
    if k == 1:
        terms[(1,)] = herm_matrix(N, 1, herm)
        terms[(2,)] = herm_matrix(N, 2, herm)
    else:
        terms[(1, 0)] = herm_matrix(N, 1, herm)
        terms[(0, 1)] = herm_matrix(N, 2, herm)
    if rep == "sympy":
        conv = lambda m: sympy.Matrix(N, N, lambda i, j: sympy.Integer(int(m[i, j].real)) + sympy.I * sympy.Integer(int(m[i, j].imag)))  # noqa: E731
        h0 = sympy.diag(*[sympy.Integer(e) for e in E])
    elif rep == "csr":
        conv = lambda m: sparse.csr_array(m)  # noqa: E731
        h0 = sparse.csr_array(np.diag(np.array(E, dtype=float)))
    else:
        conv = lambda m: np.array(m)  # noqa: E731
        h0 = np.diag(np.array(E, dtype=float))
    H = {z: h0, **{o: conv(m) for o, m in terms.items()}}
    if rep == "mixed":
        first = sorted(terms)[-1]
        H[first] = sparse.csr_array(terms[first])
    kwargs = dict(hermitian=herm)
    if spec.get("implicit"):
        # explicit eigenvectors of the first sum(sizes) states; the rest is implicit
        vecs = []
        off = 0
        eye = np.eye(N)
        for s in sizes:
            vecs.append(eye[:, off : off + s].copy())
            off += s
        kwargs["subspace_eigenvectors"] = tuple(vecs)
        H[z] = sparse.csr_array(np.diag(np.array(E, dtype=float)))
    else:
        kwargs["subspace_indices"] = [b for b, s in enumerate(sizes) for _ in range(s)]
    if spec.get("mask"):
        kwargs["fully_diagonalize"] = {b: np.array(m, dtype=bool) for b, m in spec["mask"].items()}
    elif spec.get("fd"):
        kwargs["fully_diagonalize"] = tuple(spec["fd"])
    return H, kwargs


def input_fingerprint(H, kwargs):
    parts = [(str(k), fingerprint(v)) for k, v in sorted(H.items())]
    for key in ("subspace_eigenvectors",):
        if key in kwargs:
            parts += [(key, fingerprint(v)) for v in kwargs[key]]
    if isinstance(kwargs.get("fully_diagonalize"), dict):
        parts += [("fd", fingerprint(v.astype(int))) for v in kwargs["fully_diagonalize"].values()]
    return tuple(parts)


class BDWorld(World):
    """One or more block_diagonalize computations built from the *same* input objects."""

    def __init__(self, spec, copies=1, inputs=None):
        from pymablock import block_diagonalize

        self.spec = spec
        self.H, self.kwargs = inputs if inputs is not None else make_inputs(spec)
        self.input_fp = input_fingerprint(self.H, self.kwargs)
        self.comps = [block_diagonalize(self.H, **self.kwargs) for _ in range(copies)]
        roots = [o for c in self.comps for o in c]
        # a user-level Hermitian product of the returned series (the usual unitarity check)
        from pymablock.series import cauchy_dot_product

        self.products = [cauchy_dot_product(c[2], c[1], hermitian=spec["hermitian"]) for c in self.comps]
        roots += self.products
        super().__init__(roots)
        self.scopes = [c[0].eval.__globals__ for c in self.comps]
        self.handed = []  # (value, fingerprint) of everything returned to the "caller"

    def nblocks(self):
        return self.comps[0][0].shape[0]

    def get(self, letter):
        """letter = (kind, comp, ...) -> the raw returned value."""
        kind, c = letter[0], letter[1]
        if kind == "e":  # element of output w
            _, _, w, idx = letter
            return self.comps[c][w][tuple(idx)]
        if kind == "s":  # numpy-style index expression on output w
            _, _, w, expr = letter
            return self.comps[c][w][decode_index(expr)]
        if kind == "v":  # finite-only index -> view, then infinite index
            _, _, w, fin, inf = letter
            return self.comps[c][w][decode_index(fin)][decode_index(inf)]
        if kind == "p":  # element of the user-level product U_inv @ U
            _, _, idx = letter
            return self.products[c][tuple(idx)]
        if kind == "i":  # internal series element
            _, _, name, idx = letter
            return self.scopes[c]["series"][name][tuple(idx)]
        raise ValueError(letter)

    def request(self, letter):
        v = self.get(letter)
        fp = fingerprint(v)
        self.handed.append((v, fp))
        return fp


def decode_index(expr):
    out = []
    for e in expr:
        if isinstance(e, (list, tuple)) and len(e) and e[0] == "sl":
            out.append(slice(*e[1:]))
        elif isinstance(e, (list, tuple)) and len(e) and e[0] == "li":
            out.append(list(e[1:]))
        elif isinstance(e, (list, tuple)):
            out.append(list(e))
        else:
            out.append(e)
    return tuple(out)
