"""Independent reference interpreter of the series mini-language.

Parses the *source text* of an algorithm with `ast` (no use of pymablock.algorithm_parsing)
and evaluates elements by memoised recursion straight from the documented semantics:
no deletion, no Hermiticity shortcut, no linear-operator twin series, no compiled code.
A definition on whose evaluation an element is re-entered is not well-founded
(`NotWellFounded`).
"""
from __future__ import annotations

import ast
import itertools


class NotWellFounded(Exception):
    pass


class SeriesProxy:
    """What a scope function receives for a bare series argument: indexable by block index."""

    is_series_proxy = True

    def __init__(self, interp, name):
        self.i = interp
        self.name = name

    def __getitem__(self, index):
        return self.i.elem(self.name, tuple(index))


class Interp:
    def __init__(self, source, inputs, scope, nblocks, ninf, zero, one, adjoint, operator=None):
        """inputs: {name: callable(index) -> value (library sentinels zero/one allowed)}."""
        fdef = ast.parse(source).body[0]
        self.zero, self.one, self.adjoint = zero, one, adjoint
        self.inputs = inputs
        self.scope = dict(scope)
        self.nb = nblocks
        self.k = ninf
        self.operator = operator or (lambda a, b: a @ b)
        self.series = {}
        self.products = {}
        self.outputs = []
        for node in fdef.body:
            if isinstance(node, ast.With):
                name = node.items[0].context_expr.value
                if "@" in name:
                    herm = any(
                        isinstance(n, ast.Expr) and isinstance(n.value, ast.Name) and n.value.id == "hermitian"
                        for n in node.body
                    )
                    self.products[name] = (name.split(" @ "), herm)
                else:
                    self.series[name] = self._parse_series(node)
            elif isinstance(node, ast.Return):
                v = node.value
                self.outputs = [v.value] if isinstance(v, ast.Constant) else [e.value for e in v.elts]
        self.memo = {}
        self.stack = set()

    @staticmethod
    def _parse_series(node):
        start = None
        stmts = []
        for n in node.body:
            if isinstance(n, ast.Assign):
                start = n.value.value
            elif isinstance(n, ast.Expr):
                if isinstance(n.value, ast.Name) and n.value.id in ("hermitian", "antihermitian"):
                    stmts.append(("marker", n.value.id))
                elif isinstance(n.value, ast.Name):
                    pass
                else:
                    stmts.append(("all", n.value))
            elif isinstance(n, ast.If):
                stmts.append((n.test.id, n.body[0].value))
        return start, stmts

    def names(self):
        return list(self.series) + list(self.products)

    # ---- element access
    def elem(self, name, index):
        index = tuple(int(x) for x in index)
        key = (name, index)
        if key in self.memo:
            return self.memo[key]
        if key in self.stack:
            raise NotWellFounded(f"{name}{index} depends on itself")
        self.stack.add(key)
        try:
            v = self._compute(name, index)
        finally:
            self.stack.discard(key)
        self.memo[key] = v
        return v

    def _compute(self, name, index):
        i, j, *n = index
        n = tuple(n)
        z = self.zero
        if name in self.inputs:
            return self.inputs[name](index)
        if name in self.products:
            terms, herm = self.products[name]
            if herm and i > j:
                # a product declared `hermitian` has its lower blocks defined as the adjoint of the upper ones
                # (same convention as the hermitian marker of a series)
                return self.adj(self.elem(name, (j, i) + n))
            return self._product(terms, index)
        start, stmts = self.series[name]
        if sum(n) == 0 and start is not None:
            if start == 0:
                return z
            if start == 1:
                if i == j:
                    return self.one
            elif isinstance(start, str):
                assert start.endswith("_0"), start
                return self.inputs[start[:-2]](index)
        result = z
        for kind, expr in stmts:
            if kind == "marker":
                if i > j:
                    v = self.adj(self.elem(name, (j, i) + n))
                    return self.add(result, self.neg(v) if expr == "antihermitian" else v)
            elif kind == "lower":
                if i > j:
                    return self.add(result, self.value(expr, index))
            elif kind == "diagonal":
                if i == j:
                    v = self.value(expr, index)
                    d = self.scope.get("diag")
                    result = self.add(result, d(v, index) if d else v)
            elif kind == "offdiagonal":
                if i != j:
                    result = self.add(result, self.value(expr, index))
                elif self.scope.get("offdiag") is not None:
                    result = self.add(result, self.scope["offdiag"](self.value(expr, index), index))
            elif kind == "all":
                result = self.add(result, self.value(expr, index))
            else:  # unknown condition names are plain Python conditions on the scope
                if self.scope.get(kind):
                    result = self.add(result, self.value(expr, index))
        return result

    def _product(self, terms, index):
        i, j, *n = index
        n = tuple(n)
        total = self.zero

        def splits(n, parts):
            if parts == 1:
                yield (n,)
                return
            for a in itertools.product(*[range(x + 1) for x in n]):
                for rest in splits(tuple(x - y for x, y in zip(n, a)), parts - 1):
                    yield (a,) + rest

        for mids in itertools.product(range(self.nb), repeat=len(terms) - 1):
            chain = (i,) + mids + (j,)
            for sp in splits(n, len(terms)):
                vals = [(name, (chain[t], chain[t + 1]) + sp[t]) for t, name in enumerate(terms)]
                # lazy, lowest order first: a factor order is only requested if the
                # complementary (lower-order) factors are present
                order = sorted(range(len(vals)), key=lambda t: (sum(sp[t]), t))
                got = {}
                dead = False
                for t in order:
                    v = self.elem(*vals[t])
                    if v is self.zero:
                        dead = True
                        break
                    got[t] = v
                if dead:
                    continue
                mats = [got[t] for t in range(len(vals)) if got[t] is not self.one]
                if not mats:
                    term = self.one
                else:
                    term = mats[0]
                    for m in mats[1:]:
                        term = self.operator(term, m)
                total = self.add(total, term)
        return total

    # ---- zero-aware algebra
    def add(self, a, b):
        if a is self.zero:
            return b
        if b is self.zero:
            return a
        return a + b

    def neg(self, a):
        return a if a is self.zero else -a

    def adj(self, a):
        if a is self.zero or a is self.one:
            return a  # the adjoint of the identity is the identity
        return self.adjoint(a)

    def value(self, node, index):
        z = self.zero
        if isinstance(node, ast.Constant):
            if isinstance(node.value, str):
                return self.elem(node.value, index)
            return node.value
        if isinstance(node, ast.Attribute):
            i, j, *n = index
            return self.adj(self.elem(node.value.value, (j, i) + tuple(n)))
        if isinstance(node, ast.BinOp):
            if isinstance(node.op, (ast.Add, ast.Sub)):
                a = self.value(node.left, index)
                b = self.value(node.right, index)
                return self.add(a, self.neg(b) if isinstance(node.op, ast.Sub) else b)
            if isinstance(node.op, ast.Div):
                a = self.value(node.left, index)
                d = self.value(node.right, index)
                if a is z:
                    return a
                try:
                    return a / d
                except TypeError:
                    return a * (1 / d)
        if isinstance(node, ast.UnaryOp) and isinstance(node.op, ast.USub):
            v = self.value(node.operand, index)
            return -v if isinstance(v, (int, float)) else self.neg(v)
        if isinstance(node, ast.IfExp):
            return self.value(node.body if self.pyeval(node.test, index) else node.orelse, index)
        if isinstance(node, ast.Name):
            if node.id == "zero":
                return z
            return self.scope[node.id]
        if isinstance(node, ast.Call):
            f = self.scope[node.func.id]
            args = []
            for a in node.args:
                if isinstance(a, ast.Constant) and isinstance(a.value, str):
                    args.append(SeriesProxy(self, a.value))
                else:
                    args.append(self.value(a, index))
            return f(*args, index)
        raise NotImplementedError(ast.dump(node))

    def pyeval(self, node, index):
        return eval(compile(ast.Expression(body=node), "<cond>", "eval"), {}, {**self.scope, "index": index})
