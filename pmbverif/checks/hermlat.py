"""Shared case enumeration for the Hermitian lattice checks C01, C02, C03."""
from .. import lattice
from ..core import describe, run_cfg

ASSUMPTIONS = [
    "values inside each structure are generic Gaussian integers in [-3,3]^2 (two value sets per "
    "structure, selected by VERIF_SEED); the exhaustive dimension is the structure lattice, not the value space",
    "floating-point representations are compared with tolerance 1e-9 x (sum of |terms|); sympy representation exactly",
    "PYTHONHASHSEED=0; pymablock imported from /repo working tree (editable install)",
]


def cases(tier, seed):
    out = []
    if tier == "quick":
        Nmax, total1, total2, reprs = 3, 4, 3, ("sympy", "dense", "csr")
        vsets = (0,)
    else:
        Nmax, total1, total2, reprs = 4, 5, 3, ("sympy", "dense", "csr", "float")
        vsets = (0, 1)
    for st in lattice.structures(Nmax, hermitian=True):
        for rep in reprs:
            if tier != "quick" and rep == "sympy" and sum(st["sizes"]) == 4 and st["k"] == 2:
                continue  # covered by dense/csr; sympy at N=4,k=2 dominated the cost
            for vs in vsets:
                c = dict(st, repr=rep, vset=vs, total=total1 if st["k"] == 1 else total2)
                out.append(c)
    # second value set and float representation on the N<=3 slice in quick as well
    if tier == "quick":
        for st in lattice.structures(3, hermitian=True, ks=(1,)):
            out.append(dict(st, repr="float", vset=1, total=total1))
    # integer-typed and Fortran-ordered read-only inputs on the N <= 3 slice
    for st in lattice.structures(3, hermitian=True, ks=(1,), patterns=("dense", "offdiag")):
        for rep in ("int", "fortran-ro", "csr-int"):
            out.append(dict(st, repr=rep, vset=0, total=total1))
    # energy placement where block order != energy order
    for st in lattice.structures(3 if tier == "quick" else 4, hermitian=True, ks=(1,), placements=(1,),
                                 patterns=("dense",), supports={1: [[(1,)]]}):
        for rep in ("sympy", "csr"):
            out.append(dict(st, repr=rep, vset=0, total=total1))
    # the zero level placed last (vanishing H_0 block as column block), N <= 4
    for st in lattice.structures(4, hermitian=True, ks=(1,), placements=(2,), patterns=("dense",), supports={1: [[(1,)]]}):
        if sum(st["sizes"]) == 4 and len(st["sizes"]) > 2 and tier == "quick":
            continue
        for rep in ("sympy", "csr"):
            out.append(dict(st, repr=rep, vset=0, total=3))
    # legacy scipy.sparse matrix classes (`*` is a matrix product there), already separated into blocks
    for st in lattice.structures(3, hermitian=True, ks=(1,), patterns=("dense",), supports={1: [[(1,)], [(1,), (2,)]]}):
        for rep in ("csrm-blocks", "coom-blocks"):
            out.append(dict(st, repr=rep, vset=0, total=3))
    for st in lattice.mask_structures(3, hermitian=True):
        out.append(dict(st, repr="csrm-blocks", vset=0, total=3))
    # a mask on a block other than the first, with a non-transitive kept set
    for sizes in ((1, 3), (2, 3)):
        for E in lattice.level_patterns(sizes):
            Eb = [tuple(e) for e in E[sizes[0]:]]
            for m in lattice.sym_masks(3, Eb, True):
                for rep in ("sympy", "dense") if sizes == (1, 3) else ("dense",):
                    out.append(dict(sizes=list(sizes), E=E, k=1, support=[[1]], pattern="dense", fd=None, mask={"1": m},
                                    hermitian=True, repr=rep, vset=0, total=3))
    # three blocks with a mask on the interior block only
    for E in lattice.level_patterns((1, 3, 1)):
        Eb = [tuple(e) for e in E[1:4]]
        for m in lattice.sym_masks(3, Eb, True):
            out.append(dict(sizes=[1, 3, 1], E=E, k=1, support=[[1]], pattern="dense", fd=None, mask={"1": m},
                            hermitian=True, repr="dense", vset=0, total=3))
    # degeneracy-threshold families (float representations only):
    #  (a) a fully diagonalised block sitting at a large common offset (gaps >= 1, |E| = 2e5: distinct levels)
    #  (b) degenerate levels given with rounding noise (equal within atol but not bit-identical)
    for sizes in ((3,), (2, 2), (1, 3), (2, 1), (1, 2)):
        nb = len(sizes)
        off = lattice.offsets(sizes)
        for E in lattice.level_patterns(sizes):
            for rep in ("dense", "csr"):
                E2 = [[e[0] + (200000 if a >= off[nb - 1] else 0), 0] for a, e in enumerate(E)]
                out.append(dict(sizes=list(sizes), E=E2, k=1, support=[[1]], pattern="dense", fd=[nb - 1], mask=None,
                                hermitian=True, repr=rep, vset=0, total=3))
                if len({tuple(e) for e in E}) < len(E):
                    E3 = [[e[0] + 3, 0] for e in E]
                    for fd in ([nb - 1], list(range(nb))):
                        out.append(dict(sizes=list(sizes), E=E3, k=1, support=[[1]], pattern="dense", fd=fd, mask=None,
                                        hermitian=True, repr=rep, vset=0, total=3, noise=True))
                        # same levels split by 1e-10 with a user-supplied atol = 1e-6
                        out.append(dict(sizes=list(sizes), E=E3, k=1, support=[[1]], pattern="dense", fd=fd, mask=None,
                                        hermitian=True, repr=rep, vset=0, total=3, noise=1e-10, atol=1e-6))
    # element-level sparsity of the coupling blocks: strictly lower / upper triangular blocks between blocks of
    # size >= 2 (a block is non-zero although one of its triangles vanishes)
    for sizes in ((2, 2), (2, 2, 1), (1, 2, 2)) if tier == "quick" else ((2, 2), (2, 2, 1), (1, 2, 2), (3, 3), (2, 3)):
        for E in lattice.level_patterns(sizes):
            if len({tuple(e) for e in E}) < len(E) and sum(sizes) > 4:
                continue
            for pat in ("lowtri", "uptri"):
                for sup in ([[1]], [[1], [2]]):
                    for fd in ([], list(range(len(sizes)))):
                        for rep in ("sympy", "dense", "csr"):
                            if rep == "sympy" and sum(sizes) > 5:
                                continue
                            out.append(dict(sizes=list(sizes), E=E, k=1, support=sup, pattern=pat, fd=fd, mask=None,
                                            hermitian=True, repr=rep, vset=0, total=3))
    # order-dependent block sparsity: the first-order term couples one pair of blocks only, another block joins at
    # second order (three or more blocks; the deviation of a wrongly "decoupled" block shows from third order on)
    for sizes in ((1, 1, 1), (2, 1, 1), (1, 1, 2)):
        for E in lattice.level_patterns(sizes):
            if len({tuple(e) for e in E}) < len(E):
                continue
            for pair in ("pair01", "pair02", "pair12"):
                for second in ("dense", "offdiag"):
                    for fd in ([], [0, 1, 2]):
                        for rep in ("sympy", "dense", "csr") if sum(sizes) == 3 else ("dense", "csr"):
                            out.append(dict(sizes=list(sizes), E=E, k=1, support=[[1], [2]], pattern="dense",
                                            patterns={"1": pair, "2": second}, fd=fd, mask=None, hermitian=True,
                                            repr=rep, vset=0, total=4))
    # more parameters / higher total order on the smallest layouts: k = 2 to total order 4 (mixed orders (2,1) vs
    # (1,2), terms present only at higher orders), k = 3 to total order 3
    for sizes in ((1, 1), (2, 1), (1, 1, 1)):
        for E in lattice.level_patterns(sizes):
            if len({tuple(e) for e in E}) < len(E):
                continue
            nb = len(sizes)
            for fd in ([], list(range(nb))):
                for rep in ("dense", "csr"):
                    for sup in ([[1, 0], [0, 1]], [[2, 0], [1, 1]], [[1, 0], [0, 2], [2, 1]]):
                        out.append(dict(sizes=list(sizes), E=E, k=2, support=sup, pattern="dense", fd=fd, mask=None,
                                        hermitian=True, repr=rep, vset=0, total=4))
                    for sup in ([[1, 0, 0], [0, 1, 0], [0, 0, 1]], [[1, 0, 0], [0, 1, 1], [0, 0, 2]]):
                        out.append(dict(sizes=list(sizes), E=E, k=3, support=sup, pattern="dense", fd=fd, mask=None,
                                        hermitian=True, repr=rep, vset=0, total=3))
    # every symmetric mask on a block of four non-degenerate levels (kept graphs that are regular without being
    # complete -- rings -- first occur at this size); five-level rings and chains in the thorough tier
    for sizes, b in (((4,), 0), ((1, 4), 1)):
        off = lattice.offsets(sizes)
        for E in lattice.level_patterns(sizes):
            Eb = [tuple(e) for e in E[off[b]:off[b + 1]]]
            if len(set(Eb)) < 4:
                continue
            for m in lattice.sym_masks(4, Eb, True):
                for rep in ("dense", "csr") if sizes == (4,) else ("dense",):
                    out.append(dict(sizes=list(sizes), E=E, k=1, support=[[1]], pattern="dense", fd=None, mask={str(b): m},
                                    hermitian=True, repr=rep, vset=0, total=3))
    if tier != "quick":
        E5 = [[e, 0] for e in lattice.POOL[:5]]
        for kept in ([(0, 1), (1, 2), (2, 3), (3, 4), (4, 0)], [(0, 1), (1, 2), (2, 3), (3, 4)], [(0, 2), (2, 4), (4, 1), (1, 3), (3, 0)],
                     [(0, 1), (2, 3)], [(0, 1), (1, 2), (2, 0)]):
            m = [[0 if (i == j or (i, j) in kept or (j, i) in kept) else 1 for j in range(5)] for i in range(5)]
            for rep in ("dense", "csr"):
                for sup in ([[1]], [[1], [2]]):
                    out.append(dict(sizes=[5], E=E5, k=1, support=sup, pattern="dense", fd=None, mask={"0": m}, hermitian=True,
                                    repr=rep, vset=0, total=3))
    # masks on two blocks at once (every pair of admissible masks), one and two perturbation orders
    for sizes, bl in (((2, 2), (0, 1)), ((2, 1, 2), (0, 2)), ((3, 2), (0, 1))):
        off = lattice.offsets(sizes)
        for E in lattice.level_patterns(sizes):
            ma = list(lattice.sym_masks(sizes[bl[0]], [tuple(e) for e in E[off[bl[0]]:off[bl[0] + 1]]], True))
            mb = list(lattice.sym_masks(sizes[bl[1]], [tuple(e) for e in E[off[bl[1]]:off[bl[1] + 1]]], True))
            for m0 in ma:
                for m1 in mb:
                    for sup in ([[1]], [[1], [2]]):
                        for rep in ("dense", "csr") if sum(sizes) > 4 else ("sympy", "dense", "csr"):
                            if rep == "sympy" and sup != [[1]]:
                                continue
                            out.append(dict(sizes=list(sizes), E=E, k=1, support=sup, pattern="dense", fd=None,
                                            mask={str(bl[0]): m0, str(bl[1]): m1}, hermitian=True, repr=rep, vset=0, total=3))
                            if rep == "dense" and sup == [[1]]:
                                # the same dictionary written in descending key order
                                out.append(dict(sizes=list(sizes), E=E, k=1, support=sup, pattern="dense", fd=None,
                                                mask={str(bl[1]): m1, str(bl[0]): m0}, hermitian=True, repr=rep, vset=0, total=3))
    # every admissible symmetric mask on each block in turn
    for st in lattice.mask_structures(3 if tier == "quick" else 4, hermitian=True):
        for rep in ("sympy", "dense", "csr"):
            out.append(dict(st, repr=rep, vset=0, total=4))
    # bare-ndarray mask form for single blocks
    for st in lattice.mask_structures(3, hermitian=True):
        if len(st["sizes"]) == 1:
            out.append(dict(st, repr="dense", vset=0, total=4, bare=True))
    if tier == "quick":
        # N = 4 sparse slice with a degenerate level kept inside a fully diagonalised block
        import itertools

        for sizes in ((2, 2), (1, 1, 2), (1, 3)):
            for E in lattice.level_patterns(sizes):
                if len({tuple(e) for e in E}) == len(E):
                    continue
                nb = len(sizes)
                for r in range(1, nb + 1):
                    for fd in itertools.combinations(range(nb), r):
                        for pat in ("dense", "offdiag"):
                            for vs in (0, 1):
                                for req in ("asc", "desc"):
                                    out.append(dict(sizes=list(sizes), E=E, k=1, support=[[1]], pattern=pat, fd=list(fd),
                                                    mask=None, hermitian=True, repr="csr", vset=vs, total=3, req=req))
    if tier != "quick":
        # the complete N = 5 slice of the structure lattice (every composition into <= 3 blocks, every level pattern,
        # every fully_diagonalize subset), first-order perturbation, floating-point representations
        for st in lattice.structures(5, hermitian=True, ks=(1,), patterns=("dense",), supports={1: [[(1,)]]}, Nmin=5):
            for rep in ("dense", "csr"):
                out.append(dict(st, repr=rep, vset=0, total=3))
        # the 4-block composition and N = 5 layouts
        for sizes in ((1, 1, 1, 1), (2, 3), (1, 4), (5,)):
            for E in lattice.level_patterns(sizes):
                nb = len(sizes)
                for fd in ([], [0], list(range(nb))):
                    for rep in ("dense", "csr"):
                        out.append(dict(sizes=list(sizes), E=E, k=1, support=[[1]], pattern="dense",
                                        fd=fd, mask=None, hermitian=True, repr=rep, vset=0, total=4))
    # fully symbolic entries on the smallest structures (decides the identities for all values)
    sym = []
    for st in lattice.structures(3, hermitian=True, ks=(1,), patterns=("dense",),
                                 supports={1: [[(1,)]] if tier == "quick" else [[(1,)], [(1,), (2,)]]}):
        sym.append(dict(st, repr="symbolic", symbolic=True, vset=0, total=3))
    # the same with plain complex symbols and their conjugates as entries (no explicit imaginary unit anywhere)
    for st in lattice.structures(3, hermitian=True, ks=(1,), patterns=("dense",), supports={1: [[(1,)]]}):
        if sum(st["sizes"]) == 3 and len(st["sizes"]) == 1 and tier == "quick":
            continue
        sym.append(dict(st, repr="symbolic", symbolic=True, symstyle="complex", vset=0, total=3))
    # generic floating-point energies (not on any grid) with default and loosened `atol`: the identities are
    # recomputed in floating point from the returned series and the input (residual bound 1e-10, far below atol)
    for sizes in ((2, 1), (2, 2), (1, 2, 1), (3,)):
        nb = len(sizes)
        for fd in ([], [0], list(range(nb))):
            for atol in (None, 1e-6, 1e-4):
                for rep in ("dense", "csr"):
                    out.append(dict(floatgen=True, sizes=list(sizes), fd=fd, atol=atol, repr=rep, total=3, k=1, E=[], support=[[1], [2]],
                                    pattern="dense", mask=None, hermitian=True, vset=0))
            # the same problem in other energy units, with the tolerance given in those units
            for unit, atol in ((1e-15, 1e-27), (1e-9, 1e-20), (1e6, 1e-6)):
                for rep in ("dense", "csr"):
                    out.append(dict(floatgen=True, sizes=list(sizes), fd=fd, atol=atol, unit=unit, repr=rep, total=3, k=1, E=[], support=[[1], [2]],
                                    pattern="dense", mask=None, hermitian=True, vset=0))
    out = sym + out  # the longest jobs first
    for c in out:
        c["seed"] = seed
    # both request orders on alternating cases (lower/upper triangle first)
    for i, c in enumerate(out):
        c.setdefault("req", "asc" if i % 2 == 0 else "desc")
    return out


def run_floatgen(case, props):
    import numpy as np
    from scipy import sparse

    from pymablock import block_diagonalize
    from pymablock.series import one, zero

    sizes = case["sizes"]
    N, nb = sum(sizes), len(sizes)
    rng = np.random.default_rng([case["seed"], N, nb, 313])
    E = np.sort(rng.uniform(0.0, 10.0, N)) + 3.0 * np.arange(N)  # gaps >= 3, digits all the way down
    H = {0: np.diag(E)}
    for n in (1, 2):
        a = rng.normal(size=(N, N)) + 1j * rng.normal(size=(N, N))
        H[n] = a + a.conj().T
    unit = case.get("unit") or 1.0
    H = {n: m * unit for n, m in H.items()}
    conv = (lambda m: sparse.csr_array(m)) if case["repr"] == "csr" else (lambda m: np.array(m))
    kwargs = dict(subspace_indices=lattice.block_of(sizes))
    if case["fd"]:
        kwargs["fully_diagonalize"] = tuple(case["fd"])
    elif nb == 1:
        kwargs.pop("subspace_indices")
    if case["atol"] is not None:
        kwargs["atol"] = case["atol"]
    outs = block_diagonalize({(0,): conv(H[0]), (1,): conv(H[1]), (2,): conv(H[2])}, **kwargs)
    off = lattice.offsets(sizes)
    blk = lattice.block_of(sizes)

    def full(s, n):
        m = np.zeros((N, N), dtype=complex)
        for i in range(nb):
            for j in range(nb):
                v = s[i, j, n]
                if v is zero:
                    continue
                v = np.eye(sizes[i]) if v is one else (v.toarray() if hasattr(v, "toarray") else np.asarray(v))
                m[off[i]:off[i + 1], off[j]:off[j + 1]] = v
        return m

    total = case["total"]
    H = {n: m / unit for n, m in H.items()}  # compare in units of `unit`
    Ht = [full(outs[0], n) / unit for n in range(total + 1)]
    U = [full(outs[1], n) for n in range(total + 1)]
    G = [full(outs[2], n) for n in range(total + 1)]
    fdset = set(case["fd"]) if case["fd"] else ({0} if nb == 1 else set())
    kept = np.array([[blk[i] == blk[j] and (i == j or blk[i] not in fdset) for j in range(N)] for i in range(N)])
    V = []
    scale = max(1.0, max(np.abs(m).max() for m in U + Ht))
    for n in range(total + 1):
        P = sum(G[a] @ H[b] @ U[n - a - b] for a in range(n + 1) for b in range(n - a + 1) if b in H)
        if "C01" in props:
            if np.abs((P - Ht[n])[kept]).max(initial=0) > 1e-10 * scale:
                V.append(f"generic float energies, atol={case['atol']} unit={case.get('unit')}: (U† H U)[{n}] differs from H_tilde on kept elements by {np.abs((P - Ht[n])[kept]).max():.2e}")
            if np.abs(P[~kept]).max(initial=0) > 1e-10 * scale:
                V.append(f"generic float energies, atol={case['atol']} unit={case.get('unit')}: (U† H U)[{n}] is non-zero on eliminated elements ({np.abs(P[~kept]).max():.2e})")
        if "C02" in props:
            UU = sum(G[a] @ U[n - a] for a in range(n + 1))
            want = np.eye(N) if n == 0 else np.zeros((N, N))
            if np.abs(UU - want).max() > 1e-10 * scale or np.abs(G[n] - U[n].conj().T).max() > 1e-10 * scale:
                V.append(f"generic float energies, atol={case['atol']} unit={case.get('unit')}: unitarity / adjoint relation violated at order {n}")
    return dict(violations=[dict(what=w, key=None) for w in V[:4]], nontrivial=True, outcome="floatgen-" + ("ok" if not V else "violation"),
                sample={k_: v_ for k_, v_ in case.items() if k_ in ("sizes", "fd", "atol", "unit", "repr", "total")} | {"floatgen": True})


def run_props(case, props):
    if case.get("floatgen"):
        if not ({"C01", "C02"} & set(props)):
            return dict(violations=[], nontrivial=False, outcome="floatgen-not-applicable", sample={"floatgen": True})
        return run_floatgen(case, props)
    if case.get("symbolic"):
        from .. import symbolic
        from ..lattice import is_H0_zero_single_block

        if is_H0_zero_single_block(case):
            return dict(violations=[], nontrivial=False, outcome="rejected-by-design(H0=0)", sample=describe(case))
        try:
            V = symbolic.run_symbolic(case, props)
        except Exception as e:  # noqa: BLE001
            V = [f"symbolic run raises {type(e).__name__}: {str(e)[:120]}"]
        return dict(violations=[dict(what=w, key=None) for w in V[:4]], nontrivial=len(case["sizes"]) > 1 or bool(case["fd"]) or True,
                    outcome="symbolic-" + ("ok" if not V else "violation"), stats=dict(symbolic_runs=1), sample=describe(case))
    res = run_cfg(case, case["seed"], props, case.get("req", "asc"))
    return {k: v for k, v in res.items() if not k.startswith("_")} | {"sample": describe(case)}
