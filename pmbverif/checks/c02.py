from . import hermlat

ID = "C02"
LEVEL = "exploration"
ASSUMPTIONS = hermlat.ASSUMPTIONS
cases = hermlat.cases


def run_case(case):
    return hermlat.run_props(case, {"C02"})

RULE = (
    "same lattice as C01; per case U†U and UU† are recomputed as Cauchy products on the full matrix (all block "
    "pairs) at every multi-order in the bound and compared with delta_{n0}; element (i,j,n) of the third output "
    "is compared with the conjugate transpose of U(j,i,n); H_tilde(i,j,n) with H_tilde(j,i,n)†; both request "
    "orders (ascending / descending order index) alternate over cases. non-trivial as in C01"
)

TECHNIQUE = 'bounded-exhaustive enumeration of the configuration lattice + exact Cauchy products of returned series'
LEVEL_TEXT = 'Same lattice; unitarity on every block pair, adjoint pairing and Hermiticity of H_tilde checked at every order in the bound for every structure, with both request orders.'
LEVEL_NOTE = "Trusted base: the harness's own exact arithmetic (pmbverif/exact.py) and reference solver (pmbverif/refsolve.py), numpy/sympy for value conversion; identities are polynomial in the entries so generic integer values expose a violated identity unless the point is a root; bounds as stated in evidence (N, order, k)."
