"""C11 -- an exception raised by a user callback leaves the computation consistent and reusable."""
from __future__ import annotations

import numpy as np

from ..statespace import collect_stores, fingerprint
from ..worlds import herm_matrix

ID = "C11"
LEVEL = "fault_enumeration"
TECHNIQUE = "exhaustive fault-point enumeration: every callback invocation index x exception class x single/double fault x follow-up requests on the real series"
LEVEL_TEXT = (
    "For each configuration and initial request the clean run is recorded (K callback invocations); then a fresh "
    "computation is run for every k in 1..K and every exception class with the fault injected at invocation k (and "
    "for every pair (k1,k2) with the second fault during the retry, for small K). After each fault: the exception "
    "must reach the caller, no cache may hold PENDING, every cache entry present must equal the clean value of "
    "that element, and every follow-up request must return the clean value."
)
LEVEL_NOTE = (
    "Trusted: the injection counter (callbacks are the user-supplied Hamiltonian eval, the Sylvester solver and the "
    "element multiplication; all three are owned by the harness), bitwise fingerprints against a clean computation."
)
RULE = (
    "case = (algorithm path, block layout, initial request, exception class, fault index k [, second index]); all "
    "k in 1..K enumerated, K measured from the clean run; non-trivial = the fault fired inside a nested evaluation "
    "(callback invocation index > 1 and at least one cache entry existed at fault time); distinct = distinct case"
)
ASSUMPTIONS = [
    "exception classes ValueError, RuntimeError, KeyboardInterrupt stand for 'any exception' (the code has distinct handlers for RuntimeError and BaseException)",
    "values compared bitwise with a clean computation (deterministic evaluation)",
]


class Env:
    def __init__(self):
        self.count = 0
        self.fire = {}
        self.log = []

    def point(self, label):
        self.count += 1
        self.log.append(label)
        exc = self.fire.pop(self.count, None)
        if exc is not None:
            raise exc(f"injected at callback #{self.count} {label}")


EXC = {"ValueError": ValueError, "RuntimeError": RuntimeError, "KeyboardInterrupt": KeyboardInterrupt, "TypeError": TypeError,
       # classes that library code is likely to catch for its own purposes (dictionary / attribute lookups, iteration)
       "KeyError": KeyError, "IndexError": IndexError, "AttributeError": AttributeError, "StopIteration": StopIteration,
       "MemoryError": MemoryError}

CONFIGS = {
    # name: (path, sizes, E, hermitian)
    "sc-main-22": ("series_computation", (2, 2), (0, 1, 3, 7), True),
    "sc-main-121": ("series_computation", (1, 2, 1), (0, 1, 3, 7), True),
    "sc-nh-22": ("series_computation", (2, 2), (0, 1, 3, 7), False),
    "bd-main-22": ("block_diagonalize", (2, 2), (0, 1, 3, 7), True),
    "bd-main-21fd": ("block_diagonalize-fd", (2, 1), (0, 1, 3), True),
    "bd-nh-22": ("block_diagonalize", (2, 2), (0, 1, 3, 7), False),
    "bd-impl-23": ("block_diagonalize-implicit", (2,), (0, 1, 3, 7, 12), True),
    "bd-arr-22": ("block_diagonalize-arrays", (2, 2), (0, 1, 3, 7), True),
    # scalar lazily defined Hamiltonian whose terms are nested block lists (unpacked by the library)
    "bd-nested-21": ("block_diagonalize-nested", (2, 1), (0, 1, 3), True),
}


def build(cfgname, env):
    """Return (series dict of the computation, outputs dict name->series)."""
    from pymablock import block_diagonalize
    from pymablock.algorithm_parsing import series_computation
    from pymablock.algorithms import main, nonhermitian
    from pymablock.block_diagonalization import solve_sylvester_diagonal
    from pymablock.series import BlockSeries, zero

    path, sizes, E, herm = CONFIGS[cfgname]
    N = len(E)
    nb = len(sizes)
    off = [0] + list(np.cumsum(sizes))
    h1 = herm_matrix(N, 11, herm)
    h2 = herm_matrix(N, 12, herm)
    if path == "series_computation":

        def ev(*index):
            env.point(("H",) + index)
            i, j, n = index
            if n == 0:
                return np.diag(np.array(E[off[i] : off[i + 1]], float)) if i == j else zero
            if n in (1, 2):
                return (h1 if n == 1 else h2)[off[i] : off[i + 1], off[j] : off[j + 1]]
            return zero

        H = BlockSeries(eval=ev, shape=(nb, nb), n_infinite=1, name="H")
        base = solve_sylvester_diagonal(tuple(np.array(E[off[i] : off[i + 1]], float) for i in range(nb)))

        def ss(Y, index):
            env.point(("S",) + tuple(index))
            return base(Y, index)

        def op(a, b):
            env.point(("M",))
            return a @ b

        series, _ = series_computation(
            {"H": H}, algorithm=main if herm else nonhermitian,
            scope={"solve_sylvester": ss, "two_block_optimized": nb == 2 and herm, "commuting_blocks": [True] * nb},
            operator=op,
        )
        return series, {"H_tilde": series["H_tilde"], "U": series["U"], "U†": series["U†"]}

    if path == "block_diagonalize-arrays":
        # blocks are instances of an ndarray subclass whose matrix product is a fault point; the library's
        # own multiplication operator is used untouched
        class FaultyArray(np.ndarray):
            def __matmul__(self, other):
                env.point(("M",))
                return np.ndarray.__matmul__(self, other)

            def __rmatmul__(self, other):
                env.point(("M",))
                return np.ndarray.__rmatmul__(self, other)

        def evb(*index):
            env.point(("H",) + index)
            i, j, n = index
            if n == 0:
                return np.diag(np.array(E[off[i] : off[i + 1]], float)).view(FaultyArray) if i == j else zero
            if n in (1, 2):
                return (h1 if n == 1 else h2)[off[i] : off[i + 1], off[j] : off[j + 1]].copy().view(FaultyArray)
            return zero

        Hb = BlockSeries(eval=evb, shape=(nb, nb), n_infinite=1, name="Hb")
        Ht, U, Ui = block_diagonalize(Hb, hermitian=herm)
        scope = Ht.eval.__globals__
        inner = scope["solve_sylvester"]

        def ssb(Y, index):
            env.point(("S",) + tuple(index))
            return inner(Y, index)

        scope["solve_sylvester"] = ssb
        return scope["series"], {"H_tilde": Ht, "U": U, "U†": Ui}

    # block_diagonalize paths: scalar lazily defined Hamiltonian + wrapped default solver
    from scipy import sparse

    def nested(m):
        return [[m[off[i] : off[i + 1], off[j] : off[j + 1]].copy() for j in range(nb)] for i in range(nb)]

    def ev(*index):
        (n,) = index
        env.point(("H", n))
        if n == 0:
            d = np.diag(np.array(E, float))
            if path.endswith("nested"):
                return nested(d)
            return sparse.csr_array(d) if "implicit" in path else d
        if n in (1, 2):
            m = (h1 if n == 1 else h2).copy()
            return nested(m) if path.endswith("nested") else m
        return zero

    Hs = BlockSeries(eval=ev, shape=(), n_infinite=1, name="Hs")
    kwargs = dict(hermitian=herm)
    if "implicit" in path:
        eye = np.eye(N)
        kwargs["subspace_eigenvectors"] = (eye[:, : sizes[0]],)
    elif not path.endswith("nested"):
        kwargs["subspace_indices"] = [b for b, s in enumerate(sizes) for _ in range(s)]
    if path.endswith("-fd"):
        kwargs["fully_diagonalize"] = (0,)
    Ht, U, Ui = block_diagonalize(Hs, **kwargs)
    scope = Ht.eval.__globals__
    inner = scope["solve_sylvester"]

    def ss(Y, index):
        env.point(("S",) + tuple(index))
        return inner(Y, index)

    scope["solve_sylvester"] = ss
    # instrument the element multiplication: it lives in the closures of the product series
    import operator as _op

    def mm(a, b):
        env.point(("M",))
        return a @ b

    for which in (scope["series"], scope["linear_operator_series"]):
        for name, ser in which.items():
            if "@" not in name:
                continue
            for cell in ser.eval.__closure__ or ():
                if cell.cell_contents is _op.matmul:
                    cell.cell_contents = mm
    return scope["series"], {"H_tilde": Ht, "U": U, "U†": Ui}


REQUESTS = {
    "sc-main-22": [("H_tilde", (0, 0, 4)), ("U", (0, 1, 3)), ("H_tilde", (1, 1, 5)), ("U†", (0, "all", "s:4"))],
    "sc-main-121": [("H_tilde", (1, 1, 3)), ("U†", (2, 0, 3)), ("H_tilde", (0, 0, 4))],
    "sc-nh-22": [("H_tilde", (0, 0, 3)), ("U†", (1, 0, 3)), ("H_tilde", (1, 1, 4))],
    "bd-main-22": [("H_tilde", (0, 0, 4)), ("U", (1, 0, 3)), ("H_tilde", (0, 0, "s:4")), ("U", ("all", "all", "s:3"))],
    "bd-main-21fd": [("H_tilde", (0, 0, 3)), ("U", (0, 0, 3))],
    "bd-nh-22": [("H_tilde", (1, 1, 3)), ("U†", (0, 1, 3))],
    "bd-impl-23": [("H_tilde", (0, 0, 3)), ("U", (0, 1, 3)), ("H_tilde", (1, 1, 2))],
    "bd-arr-22": [("H_tilde", (0, 0, 3)), ("U", (0, 1, 3))],
    "bd-nested-21": [("H_tilde", (0, 0, 3)), ("U", (0, 1, 3))],
}


def dec(idx):
    """'s:N' stands for slice(0, N), 'all' for slice(None) (requests are kept hashable / serialisable)."""
    return tuple(slice(0, int(x[2:])) if isinstance(x, str) and x.startswith("s:") else slice(None) if x == "all" else x for x in idx)


def followups(cfgname, req):
    nb = len(CONFIGS[cfgname][1]) + (1 if "impl" in cfgname else 0)
    last = nb - 1
    fu = [req, ("H_tilde", (0, 0, 3)), ("H_tilde", (last, last, 2)), ("U", (0, last, 3)), ("U†", (last, 0, 2)),
          ("U", (0, 0, 2)), ("H_tilde", (0, 0, 4)), ("H_tilde", (0, 0, 1)),
          # start values (cannot be recomputed) and multi-element requests
          ("H_tilde", (0, 0, 0)), ("U", (0, 0, 0)), ("U†", (last, last, 0)), ("H_tilde", (0, 0, "s:4")), ("U", ("all", "all", 1))]
    internal = [("X", (0, last, 2)), ("B", (0, 0, 2))]
    return fu, internal


def clean_run(cfgname, req):
    env = Env()
    series, outs = build(cfgname, env)
    c0 = env.count
    outs[req[0]][dec(req[1])]
    return env.count - c0, c0


def run_definition_fault(case):
    """Fault inside a Hamiltonian-term callback while the computation is being *defined*; the same
    input series is then used for a second definition, which must behave like an undisturbed one."""
    from pymablock import block_diagonalize
    from pymablock.series import PENDING, BlockSeries, zero

    form, k, excname = case["form"], case["k"][0], case["exc"]
    exc = EXC[excname]
    E = (0, 1, 3, 7)
    sizes = (2, 2)
    off = [0, 2, 4]
    h1 = herm_matrix(4, 11, True)
    env = Env()

    def make():
        if form == "block":
            def ev(*index):
                env.point(("H",) + index)
                i, j, n = index
                if n == 0:
                    return np.diag(np.array(E[off[i] : off[i + 1]], float)) if i == j else zero
                return h1[off[i] : off[i + 1], off[j] : off[j + 1]] if n == 1 else zero

            return BlockSeries(eval=ev, shape=(2, 2), n_infinite=1, name="Hb"), {}

        def evs(n):
            env.point(("H", n))
            if n == 0:
                return np.diag(np.array(E, float))
            return h1.copy() if n == 1 else zero

        return BlockSeries(eval=evs, shape=(), n_infinite=1, name="Hs"), dict(subspace_indices=[0, 0, 1, 1])

    V = []
    # clean values
    Hc, kw = make()
    clean = block_diagonalize(Hc, **kw)
    cleanv = {(w, i, j, n): fingerprint(clean[w][i, j, n]) for w in range(3) for i in range(2) for j in range(2) for n in range(4)}
    ndef = env.count  # includes the clean evaluation; recount for definition only
    env2 = Env()
    env = env2
    H, kw = make()
    env.fire[k] = exc
    fired = False
    try:
        block_diagonalize(H, **kw)
    except BaseException as e:  # noqa: BLE001
        fired = isinstance(e, exc) or "injected" in str(e) or "injected" in str(getattr(e, "__cause__", ""))
        if not isinstance(e, exc):
            V.append(f"definition fault {excname} at callback {k} surfaced as {type(e).__name__}")
    env.fire.clear()
    if not fired:
        return dict(violations=[dict(what=w, key=None) for w in V], nontrivial=False, outcome="definition/not-fired", sample=case)
    stores = collect_stores([H])
    for name, o in stores:
        if hasattr(o, "_data") and any(v is PENDING for v in o._data.values()):
            V.append(f"PENDING marker left in the input series {name} after a fault during the definition")
    try:
        outs = block_diagonalize(H, **kw)
        for key_, fp in cleanv.items():
            w, i, j, n = key_
            if fingerprint(outs[w][i, j, n]) != fp:
                V.append(f"after a definition-time fault, element {key_} of a second definition on the same input differs from the undisturbed value")
                break
    except BaseException as e:  # noqa: BLE001
        V.append(f"second definition on the same input series raises {type(e).__name__}: {str(e)[:100]}")
    tag = f"[definition fault form={form} {excname} at callback {k}]"
    return dict(violations=[dict(what=f"{w} {tag}", key=None) for w in V[:3]], nontrivial=True, outcome="definition/" + ("bad" if V else "ok"),
                stats=dict(faults_injected=1), sample=case)


def cases(tier, seed):
    out = []
    for form in ("block", "scalar"):
        for exc in EXC:
            for k in range(1, 9):
                out.append(dict(cfg="definition", form=form, req=["definition", []], exc=exc, k=[k], K=8))
    double_K = 40 if tier == "quick" else 120
    cfgs = list(CONFIGS)
    for cfgname in cfgs:
        reqs = REQUESTS[cfgname] if tier != "quick" else REQUESTS[cfgname][:2] + [r for r in REQUESTS[cfgname][2:] if any(isinstance(x, str) for x in r[1])]
        for req in reqs:
            K, c0 = clean_run(cfgname, req)
            for exc in EXC:
                for k in range(1, K + 1):
                    out.append(dict(cfg=cfgname, req=[req[0], list(req[1])], exc=exc, k=[k], K=K))
            # double faults: second fault at every invocation index of the retry
            if K <= double_K:
                for k1 in range(1, K + 1):
                    for k2 in range(1, K + 1):
                        out.append(dict(cfg=cfgname, req=[req[0], list(req[1])], exc="KeyboardInterrupt", k=[k1, k2], K=K))
            else:
                stride = max(1, K // 12)
                for k1 in range(1, K + 1, stride):
                    for k2 in range(1, K + 1, stride):
                        out.append(dict(cfg=cfgname, req=[req[0], list(req[1])], exc="RuntimeError", k=[k1, k2], K=K))
    return out


_clean_cache = {}


def clean_value(cfgname, name, index):
    """Fingerprint of element `index` of series `name` in an undisturbed computation."""
    key = (cfgname, name, index)
    if key not in _clean_cache:
        env = Env()
        series, outs = build(cfgname, env)
        s = outs.get(name) if name in outs else series.get(name)
        if s is None:
            _clean_cache[key] = None
        else:
            try:
                _clean_cache[key] = fingerprint(s[dec(index)])
            except Exception as e:  # noqa: BLE001
                _clean_cache[key] = f"EXC:{type(e).__name__}"
    return _clean_cache[key]


def run_case(case):
    from pymablock.series import PENDING

    cfgname = case["cfg"]
    if cfgname == "definition":
        return run_definition_fault(case)
    req = (case["req"][0], tuple(case["req"][1]))
    exc = EXC[case["exc"]]
    V = []
    env = Env()
    series, outs = build(cfgname, env)
    stores = collect_stores(list(outs.values()))
    c0 = env.count
    nested = False

    def attempt(k):
        nonlocal nested
        base = env.count
        env.fire[base + k] = exc
        entries_before = sum(len(o._data) for _, o in stores if hasattr(o, "_data"))
        try:
            outs[req[0]][dec(req[1])]
        except BaseException as e:  # noqa: BLE001
            if not isinstance(e, exc):
                V.append(f"fault {exc.__name__} at #{k} surfaced as {type(e).__name__}: {str(e)[:80]}")
            elif exc is RuntimeError:
                chain, cur = [], e
                while cur is not None:
                    chain.append(str(cur))
                    cur = cur.__cause__ or cur.__context__
                if not any("injected" in c for c in chain):
                    V.append(f"injected RuntimeError at #{k} lost from the cause chain")
            fired = (base + k) not in env.fire
            if fired and k > 1:
                nested = True
            return fired
        else:
            if (base + k) not in env.fire:
                V.append(f"fault at #{k} was swallowed: request returned normally")
            env.fire.clear()
            return False

    fired = attempt(case["k"][0])
    if fired and len(case["k"]) > 1:
        check_state(cfgname, series, stores, V, "after first fault")
        attempt(case["k"][1])
    env.fire.clear()
    check_state(cfgname, series, stores, V, "after fault")
    fu, internal = followups(cfgname, req)
    for name, idx in fu + internal:
        s = outs.get(name) if name in outs else series.get(name)
        if s is None:
            continue
        want = clean_value(cfgname, name, idx)
        try:
            got = fingerprint(s[dec(idx)])
        except BaseException as e:  # noqa: BLE001
            got = f"EXC:{type(e).__name__}"
            if want != got:
                V.append(f"follow-up {name}{list(idx)} raised {type(e).__name__}: {str(e)[:100]}")
            continue
        if got != want:
            V.append(f"follow-up {name}{list(idx)} returns a value different from the undisturbed computation")
    check_state(cfgname, series, stores, V, "after follow-ups")
    tag = f"[{cfgname} request={req[0]}{list(req[1])} {case['exc']} at callback {case['k']} of {case['K']}]"
    return dict(
        violations=[dict(what=f"{w} {tag}", key=None) for w in V[:4]],
        nontrivial=bool(fired and nested),
        outcome=("fired" if fired else "not-fired") + ("/bad" if V else "/ok"),
        stats=dict(faults_injected=int(fired) + (len(case["k"]) - 1 if fired else 0)),
        sample=case,
    )


def check_state(cfgname, series, stores, V, when):
    from pymablock.series import PENDING

    for name, o in stores:
        if not hasattr(o, "_data"):
            continue
        for k, v in o._data.items():
            if v is PENDING:
                V.append(f"PENDING marker left in {name}{list(k)} {when}")
    # every cache entry of a named series must be the clean value (no stale/partial value)
    for sname, o in series.items():
        for k, v in list(o._data.items()):
            if v is PENDING:
                continue
            want = clean_value(cfgname, sname, k)
            if want is None or str(want).startswith("EXC"):
                continue
            if fingerprint(v) != want:
                V.append(f"stale or partial value cached in {sname}{list(k)} {when}")
                return
