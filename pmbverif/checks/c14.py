"""C14 -- all input formats and eigenbases give the same result."""
from __future__ import annotations

import itertools
from fractions import Fraction

import numpy as np

from .. import lattice
from ..exact import M, NP, Q, orders_upto_total, q
from ..lattice import assemble, block_of, offsets, positions

ID = "C14"
LEVEL = "exploration"
TECHNIQUE = "bounded-exhaustive enumeration of container format x value type x subspace designation x eigenbasis over a set of base problems, compared with the canonical run (dict of order tuples, dense, subspace_indices)"
LEVEL_TEXT = (
    "For every base problem in the bound, every supported way of writing the same Hamiltonian (list, dict with order "
    "tuples, dict with monomial keys, sympy matrix with symbols incl. non-polynomial analytic dependence, nested block "
    "lists, scalar/block BlockSeries) x every value type x every subspace designation x every eigenbasis of a fixed "
    "set is run through the real block_diagonalize / operator_to_BlockSeries and all three outputs are compared with "
    "the canonical run at every order in the bound."
)
LEVEL_NOTE = "Trusted: the canonical run (tied to the independent reference by C03/C05); Taylor coefficients of the analytic test functions are derived by the harness from their known series, not by sympy."
RULE = (
    "case = (base problem, format, value type, designation | eigenbasis | operator_to_BlockSeries scenario); "
    "non-trivial = U of the canonical run has non-zero terms at order >= 2; distinct = distinct case"
)
ASSUMPTIONS = ["float tolerance 1e-9 x scale; exact representations compared exactly after conversion to Gaussian rationals"]

BASES = {
    "h21": dict(sizes=[2, 1], E=[0, 1, 3], hermitian=True),
    "h12deg": dict(sizes=[1, 2], E=[0, 3, 3], hermitian=True),
    "h111": dict(sizes=[1, 1, 1], E=[0, 1, 3], hermitian=True),
    "h3": dict(sizes=[3], E=[0, 1, 3], hermitian=True),
    "h22": dict(sizes=[2, 2], E=[0, 1, 3, 7], hermitian=True),
    "n21": dict(sizes=[2, 1], E=[0, 1, 3], hermitian=False),
    "n12": dict(sizes=[1, 2], E=[0, 1, 3], hermitian=False),
    "h31": dict(sizes=[3, 1], E=[0, 1, 3, 7], hermitian=True),
    "h13": dict(sizes=[1, 3], E=[7, 0, 1, 3], hermitian=True),
    "n31": dict(sizes=[3, 1], E=[0, 1, 3, 7], hermitian=False),
}
MASK_FORMS = ["int", "int8", "uint8", "int64-fortran", "bool-fortran", "int-readonly", "int-strided", "bare"]
FORMATS = ["list", "dict-tuples", "dict-monomials", "sympy-symbols", "nested-blocks", "scalar-series", "block-series"]
VTYPES = ["dense", "csr", "coo", "csc", "sympy"]
VTYPES_EXTRA = ["c64", "fortran", "readonly", "strided", "dia", "lil", "bsr", "csr_matrix", "coo_unsorted_dup", "immutable"]
DESIG = ["indices", "eigvec-dense", "eigvec-sparse"]


def base_values(base, k, seed, scale=None, sup=None):
    sup = sup or {1: [[1], [2]], 2: [[1, 0], [0, 1], [1, 1]], 3: [[1, 0, 0], [0, 1, 0], [0, 0, 1]]}[k]
    cfg = dict(BASES[base], k=k, support=sup, pattern="dense", repr="dense", vset=0)
    cfg["E"] = [[e, 0] for e in BASES[base]["E"]]
    values = lattice.gen_values(cfg, seed)
    if scale is not None:
        # only first-order terms: an input term whose entries are all below atol is dropped by design
        values = {o: m * scale for o, m in values.items() if sum(o) == 1}
    return cfg, values


def cases(tier, seed):
    out = []
    qk = tier == "quick"
    bases = ["h21", "h12deg", "h111", "h3", "n21"] if qk else list(BASES)
    for b in bases:
        for k in (1, 2):
            for fmt in FORMATS:
                for vt in VTYPES:
                    for dg in DESIG:
                        if fmt == "list" and k == 1:
                            pass
                        if fmt in ("nested-blocks", "block-series") and dg != "indices":
                            continue  # already separated into blocks
                        if fmt == "sympy-symbols" and vt != "sympy":
                            continue
                        if dg == "eigvec-sparse" and vt == "sympy":
                            continue
                        out.append(dict(kind="format", base=b, k=k, fmt=fmt, vtype=vt, desig=dg, seed=seed))
        # non-positive real terms stored sparsely with explicitly stored zeros (e.g. hoppings -t after setdiag(0))
        for fmt in ("nested-blocks", "list", "dict-tuples"):
            for vt in ("csr", "coo", "csc"):
                out.append(dict(kind="format", base=b, k=1, fmt=fmt, vtype=vt, desig="indices", seed=seed, negstored=True))
        # Hamiltonians in which some parameter has no linear term (x**2 only; y**2 and x*y but no y)
        for k_, sup_ in ((1, [[2]]), (1, [[2], [3]]), (2, [[1, 0], [0, 2]]), (2, [[1, 0], [1, 1], [0, 2]]), (2, [[2, 0], [1, 1]])):
            for fmt in ("dict-monomials", "dict-tuples", "sympy-symbols", "scalar-series"):
                for vt in ("dense", "sympy"):
                    if fmt == "sympy-symbols" and vt != "sympy":
                        continue
                    out.append(dict(kind="format", base=b, k=k_, fmt=fmt, vtype=vt, desig="indices", seed=seed, sup=sup_))
        # the `symbols=` argument: perturbative symbols listed in reverse order (order indices swap), a bare Symbol
        out.append(dict(kind="format", base=b, k=2, fmt="sympy-symbols", vtype="sympy", desig="indices", seed=seed, symrev=True))
        out.append(dict(kind="format", base=b, k=2, fmt="sympy-symbols", vtype="sympy", desig="eigvec-dense", seed=seed, symrev=True))
        out.append(dict(kind="format", base=b, k=1, fmt="sympy-symbols", vtype="sympy", desig="indices", seed=seed, symsingle=True))
        # further value containers: reduced precision, memory layout, read-only buffers, other sparse formats,
        # legacy matrix classes, immutable sympy matrices
        for vt in VTYPES_EXTRA:
            for fmt in ("list", "dict-tuples", "scalar-series", "nested-blocks"):
                for dg in ("indices", "eigvec-dense"):
                    if fmt == "nested-blocks" and dg != "indices":
                        continue
                    out.append(dict(kind="format", base=b, k=1, fmt=fmt, vtype=vt, desig=dg, seed=seed))
        # three first-order parameters (the list format files one perturbation per parameter)
        for fmt in ("list", "dict-tuples", "dict-monomials", "scalar-series"):
            for vt in ("dense", "csr"):
                out.append(dict(kind="format", base=b, k=3, fmt=fmt, vtype=vt, desig="indices", seed=seed))
        # perturbations of magnitude 2^-30: formats must still agree (relative comparison)
        for fmt in ("list", "dict-tuples", "nested-blocks", "scalar-series"):
            for vt in ("dense", "csr", "sympy"):
                for dg in ("indices", "eigvec-dense"):
                    if fmt == "nested-blocks" and dg != "indices":
                        continue
                    out.append(dict(kind="format", base=b, k=1, fmt=fmt, vtype=vt, desig=dg, seed=seed, tiny=True))
        # non-integer energies with a user-supplied atol = 1e-6: every format must use the energies as given
        for fmt in ("list", "dict-tuples", "nested-blocks", "scalar-series", "block-series"):
            for vt in ("dense", "csr"):
                out.append(dict(kind="format", base=b, k=1, fmt=fmt, vtype=vt, desig="indices", seed=seed, frac=True))
        for basis in ("perm", "rot-deg", "cayley", "cayley-sparse", "unimodular-RL"):
            for vt in ("dense", "csr", "sympy"):
                out.append(dict(kind="eigenbasis", base=b, k=1, basis=basis, vtype=vt, seed=seed))
        for vt in ("dense", "csr", "sympy"):
            for dg in ("indices", "eigvec", "pairs", "implicit"):
                out.append(dict(kind="op2bs", base=b, vtype=vt, desig=dg, seed=seed))
    # the blocks to diagonalise fully given as any iterable of block indices (one-shot iterables included)
    for b in ("h21", "h22", "h111", "n21"):
        for blocks_ in ([0], [1], [0, 1]):
            for form in ("tuple", "set", "ndarray", "range", "iter", "generator", "map", "dict-keys", "reversed"):
                out.append(dict(kind="fdforms", base=b, blocks=blocks_, form=form, seed=seed))
    # elimination masks of a selectively diagonalised block given as 0/1 arrays of any integer dtype / memory layout
    # (reference: the same mask as a C-contiguous bool array); every symmetric non-empty mask of a 3-level block,
    # plus one-sided masks in non-Hermitian mode
    for b in ("h3", "h31", "h13", "n31"):
        nmask = 7 if BASES[b]["hermitian"] else 13
        for m_ in range(nmask):
            for form in MASK_FORMS:
                if form == "bare" and len(BASES[b]["sizes"]) > 1:
                    continue
                out.append(dict(kind="fdmasks", base=b, mask=m_, form=form, seed=seed))
    for N in (12, 24, 40):
        for nsub in (2, 3):
            for herm in (True, False):
                out.append(dict(kind="interleaved", N=N, nsub=nsub, hermitian=herm, seed=seed))
                if N == 12:
                    # non-contiguous labels (an unused label is an empty block): only the block indices are relabelled
                    out.append(dict(kind="interleaved", N=N, nsub=nsub, hermitian=herm, seed=seed, relabel=[0, 3, 1][:nsub] if nsub == 3 else [0, 2]))
                    out.append(dict(kind="interleaved", N=N, nsub=nsub, hermitian=herm, seed=seed, relabel=[2, 0, 4][:nsub] if nsub == 3 else [3, 1]))
    for fn in ("cos-exp", "rational", "sqrt"):
        for b in ("h21", "n21"):
            out.append(dict(kind="analytic", base=b, fn=fn, seed=seed))
    return out


def conv_value(m, vt, N=None):
    import sympy
    from scipy import sparse

    if vt == "dense":
        return np.array(m, dtype=complex)
    if vt == "csr":
        return sparse.csr_array(np.array(m, dtype=complex))
    if vt == "coo":
        return sparse.coo_array(np.array(m, dtype=complex))
    if vt == "csc":
        return sparse.csc_array(np.array(m, dtype=complex))
    if vt == "c64":
        return np.array(m, dtype=np.complex64)
    if vt == "fortran":
        return np.asfortranarray(np.array(m, dtype=complex))
    if vt == "readonly":
        a = np.array(m, dtype=complex)
        a.flags.writeable = False
        return a
    if vt == "strided":  # a non-contiguous view into a larger buffer
        a = np.array(m, dtype=complex)
        big = np.full((2 * a.shape[0], 2 * a.shape[1]), 99.0 + 0j)
        big[::2, ::2] = a
        return big[::2, ::2]
    if vt in ("dia", "lil", "bsr"):
        return getattr(sparse, vt + "_array")(np.array(m, dtype=complex))
    if vt == "csr_matrix":
        return sparse.csr_matrix(np.array(m, dtype=complex))
    if vt == "coo_unsorted_dup":  # unsorted coordinates with duplicate entries that sum to the value
        a = np.array(m, dtype=complex)
        r, c = np.nonzero(a)
        order = np.argsort(-(r * 7 + c * 3) % 11, kind="stable")
        r, c = r[order], c[order]
        v = a[r, c]
        return sparse.coo_array((np.concatenate([v / 2, v / 2]), (np.concatenate([r, r]), np.concatenate([c, c]))), shape=a.shape)
    if vt == "immutable":
        return sympy.ImmutableMatrix(conv_value(m, "sympy"))
    if vt == "sympy":
        m = np.array(m)

        def rat(x):
            f = Fraction(float(x))
            if f.denominator & (f.denominator - 1) == 0 and f.denominator > 2**20:
                return sympy.Rational(f.numerator, f.denominator)  # exact power-of-two scaling
            f = f.limit_denominator(10**9)
            return sympy.Rational(f.numerator, f.denominator)

        return sympy.Matrix(m.shape[0], m.shape[1], lambda i, j: rat(m[i, j].real) + sympy.I * rat(m[i, j].imag))
    raise ValueError(vt)


def canonical(cfg, values, total):
    c = dict(cfg, fd=None, mask=None, total=total)
    _, out, _ = lattice.run_library_values(c, values)
    return out


def collect(outs, cfg, k, total, exact, strip=None):
    res = {"Ht": {}, "U": {}, "Uinv": {}}
    pos = positions(cfg)
    for n in orders_upto_total(k, total):
        for name, s in zip(("Ht", "U", "Uinv"), outs):
            if strip is None:
                res[name][n] = assemble(s, cfg["sizes"], n, exact, pos)
            else:
                res[name][n] = assemble(StripSeries(s, strip), cfg["sizes"], n, exact, pos)
    return res


class RevOrders:
    """View of a series computed with the perturbative symbols listed in reverse order."""

    def __init__(self, s):
        self.s = s

    def __getitem__(self, idx):
        i, j, *n = idx
        return self.s[(i, j) + tuple(reversed(n))]


class StripSeries:
    """View of a series whose symbolic elements carry the monomial lambda^n: substitute 1."""

    def __init__(self, s, symbols):
        self.s = s
        self.symbols = symbols

    def __getitem__(self, idx):
        import sympy

        from pymablock.series import one, zero

        v = self.s[idx]
        if v is zero or v is one:
            return v
        if isinstance(v, sympy.MatrixBase):
            return v.subs({x: 1 for x in self.symbols})
        return v


def compare(got, want, exact_got, label, V, rtol=1e-9):
    for name in want:
        for n in want[name]:
            a, b = got[name][n], want[name][n]
            if exact_got:
                bb = M([[q(complex(x)) for x in row] for row in b.tonp()]) if isinstance(b, NP) else b
                # canonical run is in floats with small integers: compare numerically but tightly
                d = np.abs(a.tonp() - b.tonp()).max()
                ok = d <= 1e-9 * max(1.0, b.maxabs())
            else:
                d = np.abs(a.tonp() - b.tonp()).max()
                ok = np.isfinite(a.tonp()).all() and d <= rtol * max(1.0, b.maxabs())
            if not ok:
                V.append(f"{label}: {name}[{list(n)}] differs from the canonical run (by {d:.2e})")
                return


def run_case(case):
    try:
        fn = globals()["run_" + case["kind"]]
        V, nt = fn(case)
    except Exception as e:  # noqa: BLE001
        import traceback

        V, nt = [f"raises {type(e).__name__}: {str(e)[:150]} @ {traceback.format_exc().strip().splitlines()[-2][:100]}"], True
    d = {k: v for k, v in case.items() if k != "seed"}
    return dict(violations=[dict(what=f"{w} [{d}]", key=None) for w in V[:3]], nontrivial=nt,
                outcome=("ok" if not V else "violation"), sample=d)


def nontrivial_of(can):
    return any(sum(n) >= 2 and m.maxabs() > 0 for n, m in can["U"].items())


def designation(cfg, dg, vt):
    import sympy
    from scipy import sparse

    N = sum(cfg["sizes"])
    if dg == "indices":
        return dict(subspace_indices=block_of(cfg["sizes"]))
    off = offsets(cfg["sizes"])
    eye = np.eye(N)
    vecs = [eye[:, off[b] : off[b + 1]] for b in range(len(cfg["sizes"]))]
    if dg == "eigvec-sparse":
        return dict(subspace_eigenvectors=tuple(sparse.csr_array(v) for v in vecs))
    if vt == "sympy":
        return dict(subspace_eigenvectors=tuple(sympy.Matrix(v.astype(int)) for v in vecs))
    return dict(subspace_eigenvectors=tuple(v.copy() for v in vecs))


def run_format(case):
    import sympy
    from scipy import sparse

    from pymablock import block_diagonalize
    from pymablock.series import BlockSeries, zero

    k = case["k"]
    total = 3 if k == 1 else 2
    tiny = 2.0**-30 if case.get("tiny") else None
    cfg, values = base_values(case["base"], k, case["seed"], tiny, case.get("sup"))
    if case.get("negstored"):
        values = {o: -np.abs(np.array(m).real).astype(complex) for o, m in values.items()}
        for m in values.values():
            np.fill_diagonal(m, 0)
    fmt, vt, dg = case["fmt"], case["vtype"], case["desig"]
    herm = cfg["hermitian"]
    N = sum(cfg["sizes"])
    z = (0,) * k
    if fmt == "list":
        # a list means one first-order term per parameter
        values = {o: m for o, m in values.items() if sum(o) == 1}
    if tiny:
        # reference: the O(1) problem, rescaled order by order (exact: the scale is a power of two)
        _, v1 = base_values(case["base"], k, case["seed"])
        v1 = {o: m for o, m in v1.items() if sum(o) == 1}
        can = canonical(cfg, v1, total)
        can = {name: {n: m.scale(tiny ** sum(n)) for n, m in d.items()} for name, d in can.items()}
    else:
        can = canonical(cfg, values, total)
    h0 = np.diag(np.array(BASES[case["base"]]["E"], dtype=float))
    cv = lambda m: conv_value(m, vt)  # noqa: E731
    if case.get("negstored"):
        def cv(m):  # noqa: F811
            a = np.array(m, dtype=complex).real
            r, c = np.indices(a.shape)
            coo = sparse.coo_array((a.ravel(), (r.ravel(), c.ravel())), shape=a.shape)  # every entry stored, zeros included
            return coo if vt == "coo" else (coo.tocsr() if vt == "csr" else coo.tocsc())
    kwargs = dict(hermitian=herm)
    if case.get("frac"):
        # energies with digits below the (loosened) tolerance; reference = sparse dict input, which is used as given
        Ef = np.array(BASES[case["base"]]["E"], dtype=float)
        lv = {}
        for a, e in enumerate(Ef):
            lv.setdefault(e, len(lv))
        Ef = Ef + np.array([0.123456789 * (lv[e] + 1) * 1e-3 for e in Ef])
        h0 = np.diag(Ef)
        kwargs["atol"] = 1e-6
        from scipy import sparse as _sp

        ref_outs = block_diagonalize({z: _sp.csr_array(h0), **{o: _sp.csr_array(np.array(m, dtype=complex)) for o, m in values.items()}},
                                     subspace_indices=block_of(cfg["sizes"]), hermitian=herm, atol=1e-6)
        can = collect(ref_outs, cfg, k, total, False)
    strip = None
    exact = vt in ("sympy", "immutable")
    syms = sympy.symbols("x y z", real=True)[:k]
    if fmt == "list":
        Hin = [cv(h0)] + [cv(values[o]) for o in sorted(values, reverse=True)]
    elif fmt == "dict-tuples":
        Hin = {z: cv(h0), **{o: cv(m) for o, m in values.items()}}
    elif fmt == "dict-monomials":
        Hin = {sympy.Integer(1): cv(h0)}
        for o, m in values.items():
            key = sympy.Integer(1)
            for s_, p in zip(syms, o):
                key = key * s_**p
            Hin[key] = cv(m)
        kwargs["symbols"] = None
    elif fmt == "sympy-symbols":
        Hs = conv_value(h0, "sympy")
        for o, m in values.items():
            mon = sympy.Integer(1)
            for s_, p in zip(syms, o):
                mon = mon * s_**p
            Hs = Hs + mon * conv_value(m, "sympy")
        Hin = Hs
        kwargs["symbols"] = list(syms)
        if case.get("symrev"):
            kwargs["symbols"] = list(syms)[::-1]
        if case.get("symsingle"):
            kwargs["symbols"] = syms[0]
        strip = list(syms)
    elif fmt == "nested-blocks":
        off = offsets(cfg["sizes"])
        nb = len(cfg["sizes"])

        def blocks(m):
            m = np.array(m, dtype=complex)
            return [[cv(m[off[i] : off[i + 1], off[j] : off[j + 1]]) for j in range(nb)] for i in range(nb)]

        Hin = {z: blocks(h0), **{o: blocks(m) for o, m in values.items()}}
    elif fmt == "scalar-series":
        data = {z: cv(h0), **{o: cv(m) for o, m in values.items()}}
        if sparse.issparse(data[z]):
            data[z] = sparse.csr_array(data[z])
        Hin = BlockSeries(data=data, shape=(), n_infinite=k)
    elif fmt == "block-series":
        off = offsets(cfg["sizes"])
        nb = len(cfg["sizes"])
        full = {z: h0, **values}

        def ev(*index):
            i, j, *o = index
            m = full.get(tuple(o))
            if m is None:
                return zero
            blk = np.array(m, dtype=complex)[off[i] : off[i + 1], off[j] : off[j + 1]]
            if not np.any(blk):
                return zero
            return cv(blk)

        Hin = BlockSeries(eval=ev, shape=(nb, nb), n_infinite=k)
    if fmt not in ("nested-blocks", "block-series"):
        kwargs.update(designation(cfg, dg, vt))
    if len(cfg["sizes"]) == 1 and dg == "indices" and fmt not in ("nested-blocks", "block-series") and case["seed"] % 2 == 0:
        kwargs.pop("subspace_indices")  # single block: no designation at all
    # the caller's arrays must come back unchanged
    held = [(lbl, v, v.copy()) for lbl, v in (list(enumerate(Hin)) if isinstance(Hin, list) else list(Hin.items()) if isinstance(Hin, dict) else [])
            if isinstance(v, np.ndarray)]
    outs = block_diagonalize(Hin, **kwargs)
    if case.get("symrev"):
        outs = [RevOrders(o) for o in outs]
    got = collect(outs, cfg, k, total, exact, strip)
    V = []
    for lbl, v, snap in held:
        if v.dtype != snap.dtype or not np.array_equal(v, snap):
            V.append(f"format {fmt}/{vt}/{dg}: the input array {lbl} was modified")
    if tiny:
        got = {name: {n: m.scale((1 / tiny) ** sum(n)) for n, m in d.items()} for name, d in got.items()}
        can = {name: {n: m.scale((1 / tiny) ** sum(n)) for n, m in d.items()} for name, d in can.items()}
    compare(got, can, exact, f"format {fmt}/{vt}/{dg}" + ("/tiny" if tiny else ""), V, rtol=1e-4 if vt == "c64" else 1e-9)
    return V, nontrivial_of(can)


def cayley(N, tag):
    """Exact unitary from a Gaussian-integer anti-Hermitian generator: W = (1 - A)(1 + A)^-1."""
    rng = np.random.default_rng([tag, N, 5])
    B = rng.integers(-2, 3, (N, N)) + 1j * rng.integers(-2, 3, (N, N))
    A = (B - B.conj().T) / 2
    A2 = M([[q(complex(x)) for x in row] for row in A])
    one = M.eye(N)
    # solve (1 + A) X = (1 - A) exactly by Gauss-Jordan on Q
    return matsolve(one + A2, one - A2)


def matsolve(Am, Bm):
    n = Am.n
    a = [row[:] + brow[:] for row, brow in zip(Am.a, Bm.a)]
    for c in range(n):
        p = next(r for r in range(c, n) if not a[r][c].iszero())
        a[c], a[p] = a[p], a[c]
        inv = a[c][c].inv()
        a[c] = [x * inv for x in a[c]]
        for r in range(n):
            if r != c and not a[r][c].iszero():
                f = a[r][c]
                a[r] = [x - f * y for x, y in zip(a[r], a[c])]
    return M([row[n:] for row in a])


def run_eigenbasis(case):
    import sympy
    from scipy import sparse

    from pymablock import block_diagonalize

    k = 1
    total = 3
    cfg, values = base_values(case["base"], k, case["seed"])
    herm = cfg["hermitian"]
    basis, vt = case["basis"], case["vtype"]
    N = sum(cfg["sizes"])
    E = BASES[case["base"]]["E"]
    if basis == "unimodular-RL" and herm:
        return [], False
    can = canonical(cfg, values, total)
    off = offsets(cfg["sizes"])
    Hx = {(0,): M.diag(E), **{o: M([[q(complex(x)) for x in row] for row in m]) for o, m in values.items()}}
    if basis == "perm":
        # a permutation of the basis states: eigenvectors are columns of a permutation matrix
        pi = list(range(N))[::-1]
        W = M([[1 if pi[c] == r else 0 for c in range(N)] for r in range(N)])
        Wi = W.H()
    elif basis == "rot-deg":
        lv = {}
        for a, e in enumerate(E):
            lv.setdefault(e, []).append(a)
        pair = next((s for s in lv.values() if len(s) > 1), None)
        if pair is None:
            return [], False
        W = M.eye(N)
        a, b = pair[:2]
        c, s_ = Q(Fraction(3, 5)), Q(Fraction(4, 5))
        W.a[a][a], W.a[a][b], W.a[b][a], W.a[b][b] = c, s_ * Q(0, 1), -s_, c * Q(0, 1)
        Wi = W.H()
    elif basis in ("cayley", "cayley-sparse"):
        W = cayley(N, case["seed"] + 1)
        Wi = W.H()
        if not (W @ Wi == M.eye(N)):
            raise AssertionError("harness: Cayley transform not unitary")
        if not herm:
            pass
    else:  # unimodular (R, L) pair, non-Hermitian only
        T, Ti = lattice.unimodular(N)
        W = M(T.tolist())
        Wi = M(Ti.tolist())
    # rotated Hamiltonian: columns of W are the (right) eigenvectors of W H Wi
    Hrot = {o: W @ m @ Wi for o, m in Hx.items()}
    # for rot-deg the eigenvector columns mix only degenerate states, blocks unchanged
    Rcols = W
    Lcols = Wi.H()
    if vt == "sympy":
        toS = lambda m: sympy.Matrix(m.n, m.m, lambda i, j: sympy.Rational(m.a[i][j].re.numerator, m.a[i][j].re.denominator) + sympy.I * sympy.Rational(m.a[i][j].im.numerator, m.a[i][j].im.denominator))  # noqa: E731
        Hin = {o: toS(m) for o, m in Hrot.items()}
        conv = toS
    else:
        Hin = {o: (sparse.csr_array(m.tonp()) if vt == "csr" else m.tonp()) for o, m in Hrot.items()}
        conv = lambda m: (sparse.csr_array(m.tonp()) if basis == "cayley-sparse" else m.tonp())  # noqa: E731
    nb = len(cfg["sizes"])
    vecsR = [Rcols.sub(range(N), range(off[b], off[b + 1])) for b in range(nb)]
    vecsL = [Lcols.sub(range(N), range(off[b], off[b + 1])) for b in range(nb)]
    if basis == "unimodular-RL":
        sev = tuple((conv(r), conv(l)) for r, l in zip(vecsR, vecsL))
    else:
        sev = tuple(conv(r) for r in vecsR)
    if basis == "cayley-sparse" and vt == "sympy":
        return [], False
    outs = block_diagonalize(Hin, subspace_eigenvectors=sev, hermitian=herm)
    got = collect(outs, cfg, k, total, vt == "sympy")
    V = []
    compare(got, can, vt == "sympy", f"eigenbasis {basis}/{vt}", V)
    return V, nontrivial_of(can)


def run_op2bs(case):
    """operator_to_BlockSeries returns exactly the blocks L_i^dagger A R_j."""
    import sympy
    from scipy import sparse
    from scipy.sparse.linalg import LinearOperator

    from pymablock import operator_to_BlockSeries
    from pymablock.series import zero

    cfg, values = base_values(case["base"], 1, case["seed"])
    N = sum(cfg["sizes"])
    vt, dg = case["vtype"], case["desig"]
    herm = cfg["hermitian"]
    off = offsets(cfg["sizes"])
    nb = len(cfg["sizes"])
    A0 = np.diag(np.arange(1.0, N + 1))
    A = {(0,): A0, (1,): values[(1,)], (3,): values[(2,)]}
    if dg == "indices":
        kwargs = dict(subspace_indices=block_of(cfg["sizes"]))
        Rs = [np.eye(N)[:, off[b] : off[b + 1]] for b in range(nb)]
        Ls = Rs
    elif dg == "eigvec" or dg == "implicit":
        W = cayley(N, case["seed"] + 3).tonp()
        Rs = [W[:, off[b] : off[b + 1]] for b in range(nb)]
        Ls = Rs
        if dg == "implicit":
            if vt == "sympy" or nb < 2:
                return [], False
            Rs, Ls = Rs[:-1], Ls[:-1]
        kwargs = dict(subspace_eigenvectors=tuple(conv_value(r, "sympy" if vt == "sympy" else "dense") for r in Rs))
    else:  # pairs
        if herm:
            return [], False
        T, Ti = lattice.unimodular(N)
        Rs = [T[:, off[b] : off[b + 1]] for b in range(nb)]
        Ls = [Ti.conj().T[:, off[b] : off[b + 1]] for b in range(nb)]
        kwargs = dict(subspace_eigenvectors=tuple((conv_value(r, "sympy" if vt == "sympy" else "dense"), conv_value(l, "sympy" if vt == "sympy" else "dense")) for r, l in zip(Rs, Ls)))
    Ain = {o: conv_value(m, vt) for o, m in A.items()}
    if dg == "implicit":
        Ain = {o: (sparse.csr_array(m) if not sparse.issparse(m) and o == (0,) else m) for o, m in Ain.items()}
    bs = operator_to_BlockSeries(Ain, name="A", hermitian=herm, implicit=(dg == "implicit"), **kwargs)
    V = []
    nblocks = nb
    if bs.shape != (nblocks, nblocks):
        V.append(f"operator_to_BlockSeries shape {bs.shape} != {(nblocks, nblocks)}")
        return V, True
    Rall = np.hstack(Rs)
    Lall = np.hstack(Ls)
    P = np.eye(N) - Rall @ Lall.conj().T
    for n in range(5):
        m = A.get((n,))
        for i in range(nblocks):
            for j in range(nblocks):
                v = bs[i, j, n]
                li = P if (dg == "implicit" and i == nblocks - 1) else Ls[i].conj().T
                rj = P if (dg == "implicit" and j == nblocks - 1) else Rs[j]
                want = None if m is None else li @ np.array(m, dtype=complex) @ rj
                if v is zero:
                    if want is not None and np.abs(want).max() > 1e-12:
                        V.append(f"block ({i},{j},{n}) is zero but L_i† A R_j is not")
                    continue
                if isinstance(v, LinearOperator):
                    got = v @ np.eye(v.shape[1])
                elif sparse.issparse(v):
                    got = v.toarray()
                elif isinstance(v, sympy.MatrixBase):
                    got = np.array(v.tolist(), dtype=complex)
                else:
                    got = np.asarray(v, dtype=complex)
                if want is None:
                    want = np.zeros_like(got)
                if got.shape != want.shape or np.abs(got - want).max() > 1e-9 * max(1.0, np.abs(want).max()):
                    V.append(f"block ({i},{j},{n}) of operator_to_BlockSeries differs from L_i† A R_j")
    return V, True


def taylor(fn, nmax):
    """Taylor coefficients (Fractions) at 0 of the scalar test functions, from their known series."""
    from math import factorial

    if fn == "cos":
        return [Fraction((-1) ** (n // 2), factorial(n)) if n % 2 == 0 else Fraction(0) for n in range(nmax + 1)]
    if fn == "exp":
        return [Fraction(1, factorial(n)) for n in range(nmax + 1)]
    if fn == "geom":  # 1 / (1 - x)
        return [Fraction(1) for _ in range(nmax + 1)]
    if fn == "sqrt1p":  # sqrt(1 + x): binomial series
        c = [Fraction(1)]
        for n in range(1, nmax + 1):
            c.append(c[-1] * (Fraction(1, 2) - (n - 1)) / n)
        return c
    raise ValueError(fn)


def run_analytic(case):
    """Sympy matrix with non-polynomial analytic dependence on the symbol."""
    import sympy

    from pymablock import block_diagonalize

    cfg, values = base_values(case["base"], 1, case["seed"])
    herm = cfg["hermitian"]
    N = sum(cfg["sizes"])
    x = sympy.Symbol("x", real=True)
    total = 3
    fns = {"cos-exp": ("cos", "exp"), "rational": ("geom", "exp"), "sqrt": ("sqrt1p", "cos")}[case["fn"]]
    sfun = {"cos": sympy.cos(x) - 1, "exp": sympy.exp(x) - 1, "geom": 1 / (1 - x) - 1, "sqrt1p": sympy.sqrt(1 + x) - 1}
    A, B = values[(1,)], values[(2,)]
    h0 = np.diag(np.array(BASES[case["base"]]["E"], dtype=float))
    Hs = conv_value(h0, "sympy") + sfun[fns[0]] * conv_value(A, "sympy") + sfun[fns[1]] * conv_value(B, "sympy")
    # equivalent polynomial problem with the harness-derived Taylor coefficients
    ca, cb = taylor(fns[0], total), taylor(fns[1], total)
    pv = {}
    for n in range(1, total + 1):
        m = float(ca[n]) * np.array(A, dtype=complex) + float(cb[n]) * np.array(B, dtype=complex)
        pv[(n,)] = m
    ccfg = dict(cfg, support=[[n] for n in range(1, total + 1)])
    can = canonical(ccfg, pv, total)
    outs = block_diagonalize(Hs, subspace_indices=block_of(cfg["sizes"]), symbols=[x], hermitian=herm)
    got = collect(outs, cfg, 1, total, True, [x])
    V = []
    compare(got, can, True, f"analytic {case['fn']}", V)
    return V, nontrivial_of(can)


def run_fdforms(case):
    from pymablock import block_diagonalize
    from pymablock.series import one, zero

    cfg, values = base_values(case["base"], 1, case["seed"])
    herm = cfg["hermitian"]
    sizes = cfg["sizes"]
    nb = len(sizes)
    blocks_ = [b_ for b_ in case["blocks"] if b_ < nb]
    h0 = np.diag(np.array(BASES[case["base"]]["E"], dtype=float))
    H = {(0,): h0, **{o: np.array(m, dtype=complex) for o, m in values.items()}}
    kw = dict(subspace_indices=block_of(sizes), hermitian=herm)
    form = case["form"]
    given = {
        "tuple": lambda: tuple(blocks_), "set": lambda: set(blocks_), "ndarray": lambda: np.array(blocks_), "range": lambda: range(min(blocks_), max(blocks_) + 1),
        "iter": lambda: iter(list(blocks_)), "generator": lambda: (b_ for b_ in blocks_), "map": lambda: map(int, blocks_),
        "dict-keys": lambda: dict.fromkeys(blocks_).keys(), "reversed": lambda: reversed(blocks_),
    }[form]()
    if form == "range" and list(given) != blocks_:
        return [], False
    ref = block_diagonalize(dict(H), fully_diagonalize=list(blocks_), **kw)
    try:
        alt = block_diagonalize(dict(H), fully_diagonalize=given, **kw)
    except (ValueError, TypeError, NotImplementedError):
        return [], False  # refusing an exotic container is acceptable; answering differently is not
    V = []
    for name, sr, sa in zip(("H_tilde", "U", "U_inv"), ref, alt):
        for n in (0, 1, 2, 3):
            for i in range(nb):
                for j in range(nb):
                    x, y = sr[i, j, n], sa[i, j, n]
                    if x is zero or y is zero or x is one or y is one:
                        if x is not y and not (x is zero and np.abs(np.asarray(y.toarray() if hasattr(y, "toarray") else y)).max(initial=0) < 1e-12) \
                                and not (y is zero and np.abs(np.asarray(x.toarray() if hasattr(x, "toarray") else x)).max(initial=0) < 1e-12):
                            V.append(f"{name}[{i},{j},{n}]: fully_diagonalize given as {form} differs from the list form (sentinel)")
                        continue
                    dx = np.asarray(x.toarray() if hasattr(x, "toarray") else x)
                    dy = np.asarray(y.toarray() if hasattr(y, "toarray") else y)
                    if dx.shape != dy.shape or np.abs(dx - dy).max(initial=0) > 1e-9 * max(1.0, np.abs(dx).max(initial=0)):
                        V.append(f"{name}[{i},{j},{n}]: fully_diagonalize given as {form} differs from the list form")
    return V[:3], True


def run_fdmasks(case):
    from pymablock import block_diagonalize
    from pymablock.series import one, zero

    cfg, values = base_values(case["base"], 1, case["seed"])
    herm = cfg["hermitian"]
    sizes = cfg["sizes"]
    nb = len(sizes)
    blk = sizes.index(3)
    pairs = [(0, 1), (0, 2), (1, 2)]
    m_ = case["mask"]
    mask = np.zeros((3, 3), dtype=bool)
    if m_ < 7:  # symmetric: every non-empty subset of the three pairs
        for q_, (a, b_) in enumerate(pairs):
            if (m_ + 1) >> q_ & 1:
                mask[a, b_] = mask[b_, a] = True
    else:  # one-sided (non-Hermitian mode only): a single directed element, then two
        directed = [(0, 1), (1, 0), (0, 2), (2, 1)]
        sel = [[0], [1], [2], [3], [0, 2], [1, 3]][m_ - 7]
        for q_ in sel:
            mask[directed[q_]] = True
    h0 = np.diag(np.array(BASES[case["base"]]["E"], dtype=float))
    H = {(0,): h0, **{o: np.array(m, dtype=complex) for o, m in values.items()}}
    kw = dict(subspace_indices=block_of(sizes), hermitian=herm)
    form = case["form"]
    if form == "int":
        given = mask.astype(int)
    elif form == "int8":
        given = mask.astype(np.int8)
    elif form == "uint8":
        given = mask.astype(np.uint8)
    elif form == "int64-fortran":
        given = np.asfortranarray(mask.astype(np.int64))
    elif form == "bool-fortran":
        given = np.asfortranarray(mask)
    elif form == "int-readonly":
        given = mask.astype(int)
        given.setflags(write=False)
    elif form == "int-strided":
        big = np.zeros((6, 6), dtype=int)
        big[::2, ::2] = mask
        given = big[::2, ::2]
    else:
        given = mask.astype(int)
    before = np.array(given, copy=True)
    ref = block_diagonalize(dict(H), fully_diagonalize={blk: mask.copy()}, **kw)
    try:
        alt = block_diagonalize(dict(H), fully_diagonalize=(given if form == "bare" else {blk: given}), **kw)
    except (ValueError, TypeError, NotImplementedError):
        return [], False  # refusing a mask container is acceptable; answering differently is not
    V = []
    nontrivial = False
    for name, sr, sa in zip(("H_tilde", "U", "U_inv"), ref, alt):
        for n in (0, 1, 2, 3):
            for i in range(nb):
                for j in range(nb):
                    x, y = sr[i, j, n], sa[i, j, n]
                    if x is zero or y is zero or x is one or y is one:
                        if x is not y and not (x is zero and np.abs(np.asarray(y.toarray() if hasattr(y, "toarray") else y)).max(initial=0) < 1e-12) \
                                and not (y is zero and np.abs(np.asarray(x.toarray() if hasattr(x, "toarray") else x)).max(initial=0) < 1e-12):
                            V.append(f"{name}[{i},{j},{n}]: elimination mask given as {form} differs from the bool mask (sentinel)")
                        continue
                    dx = np.asarray(x.toarray() if hasattr(x, "toarray") else x)
                    dy = np.asarray(y.toarray() if hasattr(y, "toarray") else y)
                    if name == "U" and n >= 2 and i == j == blk and np.abs(dx).max(initial=0) > 1e-9:
                        nontrivial = True
                    if dx.shape != dy.shape or np.abs(dx - dy).max(initial=0) > 1e-9 * max(1.0, np.abs(dx).max(initial=0)):
                        V.append(f"{name}[{i},{j},{n}]: elimination mask given as {form} differs from the bool mask")
    if not np.array_equal(before, given) or before.dtype != given.dtype:
        V.append(f"the elimination mask given as {form} was modified by block_diagonalize")
    return V[:3], nontrivial


def run_interleaved(case):
    """Many states with interleaved subspace labels: subspace_indices must select the states of
    each block in ascending order, exactly like the identity-column eigenvector matrices."""
    from pymablock import block_diagonalize, operator_to_BlockSeries
    from pymablock.series import zero

    N, nsub, herm = case["N"], case["nsub"], case["hermitian"]
    rng = np.random.default_rng([case["seed"], N, nsub, 77])
    labels = np.array([(i * 7 + (i // 3)) % nsub for i in range(N)])
    E = np.array([10.0 * labels[i] + 0.37 * i for i in range(N)])
    A = rng.integers(-3, 4, (N, N)) + 1j * rng.integers(-3, 4, (N, N))
    h1 = (A + A.conj().T) if herm else A.astype(complex)
    eye = np.eye(N)
    vecs = [eye[:, labels == b] for b in range(nsub)]
    V = []
    bs = operator_to_BlockSeries([np.diag(E), h1], subspace_indices=labels, hermitian=herm)
    for i in range(nsub):
        for j in range(nsub):
            for n, m in ((0, np.diag(E)), (1, h1)):
                got = bs[i, j, n]
                want = vecs[i].conj().T @ m @ vecs[j]
                g = np.zeros_like(want, dtype=complex) if got is zero else (got.toarray() if hasattr(got, "toarray") else np.asarray(got))
                if g.shape != want.shape or np.abs(g - want).max() > 1e-12:
                    V.append(f"operator_to_BlockSeries(subspace_indices) block ({i},{j},{n}) is not L_i† A R_j for the ascending states of each label")
    a = block_diagonalize([np.diag(E), h1], subspace_indices=labels, hermitian=herm)
    b = block_diagonalize([np.diag(E), h1], subspace_eigenvectors=vecs, hermitian=herm)
    if case.get("relabel"):
        rel = np.array(case["relabel"])
        try:
            c = block_diagonalize([np.diag(E), h1], subspace_indices=rel[labels], hermitian=herm)
        except (ValueError, TypeError, NotImplementedError):
            return [], False  # refusing labels with gaps is acceptable; answering differently is not
        for name, sa, sc in zip(("H_tilde", "U", "U_inv"), a, c):
            if sc.shape[0] != rel.max() + 1:
                V.append(f"{name}: {sc.shape[0]} blocks for labels {sorted(set(rel.tolist()))}")
                continue
            for n in (0, 1, 2):
                for i in range(nsub):
                    for j in range(nsub):
                        x, y = sa[i, j, n], sc[int(rel[i]), int(rel[j]), n]
                        from pymablock.series import one

                        if x is one or y is one:
                            if x is not y:
                                V.append(f"{name}[{i},{j},{n}]: identity sentinel mismatch after relabelling the blocks {rel.tolist()}")
                            continue
                        dx = None if x is zero else np.asarray(x.toarray() if hasattr(x, "toarray") else x)
                        dy = None if y is zero else np.asarray(y.toarray() if hasattr(y, "toarray") else y)
                        if (dx is None) != (dy is None):
                            if np.abs(dx if dy is None else dy).max(initial=0) > 1e-12:
                                V.append(f"{name}[{i},{j},{n}]: zero sentinel mismatch after relabelling the blocks {rel.tolist()}")
                        elif dx is not None and (dx.shape != dy.shape or np.abs(dx - dy).max() > 1e-9 * max(1.0, np.abs(dx).max())):
                            V.append(f"{name}[{i},{j},{n}] changes when the block labels are relabelled to {rel.tolist()}")
        return V[:3], True
    for name, sa, sb in zip(("H_tilde", "U", "U_inv"), a, b):
        for n in (1, 2):
            for i in range(nsub):
                for j in range(nsub):
                    x, y = sa[i, j, n], sb[i, j, n]
                    if (x is zero) != (y is zero):
                        V.append(f"{name}[{i},{j},{n}]: zero sentinel mismatch between indices and eigenvectors")
                    elif x is not zero and np.abs(np.asarray(x) - np.asarray(y)).max() > 1e-9 * max(1.0, np.abs(np.asarray(y)).max()):
                        V.append(f"{name}[{i},{j},{n}] differs between subspace_indices and the identity-column eigenvectors")
    return V[:3], True
