"""C20 -- ill-posed problems are rejected, never answered with silent garbage; well-posed numeric
inputs give finite results."""
from __future__ import annotations

import itertools
import warnings
from fractions import Fraction

import numpy as np

from .. import lattice, refsolve
from ..core import describe, run_cfg
from ..exact import M, Q, orders_upto_total, q
from ..lattice import REJECTIONS, assemble, eliminate_mask, exact_H, offsets, positions

ID = "C20"
LEVEL = "exploration"
TECHNIQUE = "bounded-exhaustive embedding of every ill-posed class at every position of the configuration lattice; delta-splitting reference decides which elements need the ill-defined quantity; finiteness sweep over the well-posed float lattice"
LEVEL_TEXT = (
    "Each listed class of ill-posed input is embedded into every lattice configuration at every admissible position "
    "(each off-diagonal block of H_0, each pair of blocks sharing a level, each degenerate pair selected by a mask, "
    "each asymmetric mask, each defective eigenvector set, each non-Hermitian symbolic order, each option conflict) "
    "and the real block_diagonalize must raise ValueError/TypeError/NotImplementedError at construction or no later "
    "than the first element whose exact reference value depends on the regularisation of the degeneracy; elements "
    "that do not depend on it must be correct if returned. All elements of well-posed float runs must be finite."
)
LEVEL_NOTE = "Trusted: pmbverif/refsolve.py run on two delta-regularisations (exact rationals) as the oracle for 'needs the ill-defined quantity'."
RULE = (
    "case = (class, lattice structure, position, representation); non-trivial = the ill-posed feature is coupled by the "
    "perturbation (for shared levels: at least one element depends on delta) or the class is a construction-time "
    "rejection; distinct = distinct case"
)
ASSUMPTIONS = ["delta-splittings 1/7 and 1/11", "orders <= 3", "threshold probes at relative gaps 1e-7 (must reject) and 1e-3 (must accept)"]


def cases(tier, seed):
    qk = tier == "quick"
    out = []
    Nmax = 3 if qk else 4
    structs = list(lattice.structures(Nmax, hermitian=True, ks=(1,), patterns=("dense",), supports={1: [[(1,)]]}))
    structs_nh = list(lattice.structures(3, hermitian=False, ks=(1,), patterns=("dense",), supports={1: [[(1,)]]}))
    # (a) H_0 with a non-zero element in an off-diagonal block
    for st in structs + structs_nh:
        nb = len(st["sizes"])
        if nb < 2 or st["fd"]:
            continue
        for bi, bj in itertools.permutations(range(nb), 2):
            if st["hermitian"] and bi > bj:
                continue
            for rep in ("dense", "csr", "sympy", "sympy-symbolic"):
                out.append(dict(st, cls="h0-offdiag", pos=[bi, bj], repr=rep, total=2))
    # (b) a level shared by two blocks
    for st in structs + structs_nh:
        nb = len(st["sizes"])
        if nb < 2:
            continue
        for bi, bj in itertools.combinations(range(nb), 2):
            for rep in ("dense", "csr", "sympy"):
                if not qk or rep != "csr" or not st["fd"]:
                    out.append(dict(st, cls="shared-level", pos=[bi, bj], repr=rep, total=3))
                    if sum(st["sizes"]) >= 3 and not st["fd"]:
                        out.append(dict(st, cls="shared-level", pos=[bi, bj], repr=rep, total=3, decouple=True))
    # (c) mask selecting a degenerate pair / (d) asymmetric mask in Hermitian mode
    for st in lattice.structures(3, hermitian=True, ks=(1,), patterns=("dense",), supports={1: [[(1,)]]}):
        if st["fd"]:
            continue
        off = offsets(st["sizes"])
        for b, s in enumerate(st["sizes"]):
            for i, j in itertools.permutations(range(s), 2):
                same = st["E"][off[b] + i] == st["E"][off[b] + j]
                for herm in (True, False):
                    for rep in ("dense", "sympy"):
                        # the offending mask alone, or followed / preceded by valid masks of the other blocks
                        for others in ("none", "after", "before") if len(st["sizes"]) > 1 else ("none",):
                            if same and i < j:
                                out.append(dict(st, hermitian=herm, cls="mask-degenerate", pos=[b, i, j], repr=rep, total=2, others=others))
                                if not herm:
                                    # non-Hermitian mode accepts asymmetric masks: the degenerate pair selected in one triangle only
                                    for tri in ("upper", "lower"):
                                        out.append(dict(st, hermitian=False, cls="mask-degenerate", pos=[b, i, j], repr=rep, total=2,
                                                        others=others, tri=tri))
                            if not same and herm:
                                out.append(dict(st, cls="mask-asymmetric", pos=[b, i, j], repr=rep, total=2, others=others))
    # the same on two blocks of equal size (masks of different blocks can then be confused without a shape error)
    for sizes in ((2, 2), (2, 2, 1)):
        for E in lattice.level_patterns(sizes):
            st = dict(sizes=list(sizes), E=E, k=1, support=[[1]], pattern="dense", fd=[], mask=None, hermitian=True)
            off = offsets(sizes)
            for b, s in enumerate(sizes):
                for i, j in itertools.permutations(range(s), 2):
                    same = E[off[b] + i] == E[off[b] + j]
                    for others in ("after", "before"):
                        if same and i < j:
                            for herm in (True, False):
                                out.append(dict(st, hermitian=herm, cls="mask-degenerate", pos=[b, i, j], repr="dense", total=2, others=others))
                        if not same:
                            out.append(dict(st, cls="mask-asymmetric", pos=[b, i, j], repr="dense", total=2, others=others))
    # (e) defective eigenvectors, (f) (R,L) in Hermitian mode, (h) both subspace arguments, (i) option conflicts
    for sizes in ((1, 1), (2, 1), (1, 2), (1, 1, 1)):
        for defect in ("scaled", "overlap", "nonorthogonal", "biorth-broken", "RL-in-hermitian", "both-args", "fd-custom-solver", "fd-implicit", "ndarray-fd-multiblock",
                       "overlap-e0", "overlap-e0-pairs", "RL-in-hermitian-last", "RL-in-hermitian-last-dual",
                       "scaled-down", "nonorthogonal-negative", "biorth-broken-sign", "biorth-broken-phase"):
            for rep in ("dense", "sympy", "csr_array", "csc_array", "coo_array", "csr_matrix"):
                if rep not in ("dense", "sympy") and defect not in ("scaled", "overlap", "nonorthogonal", "biorth-broken", "overlap-e0",
                                                                      "scaled-down", "nonorthogonal-negative", "biorth-broken-sign"):
                    continue  # the sparse containers matter for the eigenvector validation only
                out.append(dict(sizes=list(sizes), cls="options", defect=defect, repr=rep, total=2, hermitian=not defect.startswith("biorth-broken")))
    # (g) non-Hermitian symbolic term at each order in Hermitian mode
    for order in (0, 1, 2, 3):
        for nsym in (1, 2):
            out.append(dict(cls="symbolic-nonhermitian", order=order, nsym=nsym, total=3))
            # the same with second-quantised operators in H_0 (the offending term itself is a c-number)
            if order >= 1:
                for ops in ("boson-h0", "boson-h0-and-h1", "boson-term"):
                    out.append(dict(cls="symbolic-nonhermitian", order=order, nsym=nsym, total=3, ops=ops))
    # scalar (non-matrix) second-quantised expressions whose order-m coefficient is not Hermitian
    for order in (0, 1, 2):
        for bad in ("cnumber", "operator", "missing-hc"):
            out.append(dict(cls="symbolic-nonhermitian-scalar", order=order, bad=bad, total=3))
    # (k) threshold probes
    for rel in ("1e-7", "1e-3", "0", "1e-14"):
        for rep in ("dense", "csr"):
            for big in (1.0, 1000.0):
                out.append(dict(cls="threshold", rel=rel, repr=rep, big=big, total=3))
    # (l) second-quantised perturbation that couples degenerate (resonant) levels
    for model in ("boson-hop", "fermion-hop", "jc-resonant", "boson-hop-matrix", "two-photon", "fermion-spectator", "spin-spectator"):
        out.append(dict(cls="sq-resonant", model=model, total=2))
    # (n) implicit mode: orthonormal explicit vectors that do not span an invariant subspace of H_0 (one vector rotated
    #     towards an eigenvector of the complement): H_0 has a block between an explicit and the implicit subspace
    for nexp_blocks in ((2,), (1, 1), (2, 1), (1, 2)):
        for which in range(sum(nexp_blocks)):
            for herm in (True, False):
                for solver in ("direct", "kpm") if herm else ("direct",):
                    for fd in (None, [0]):
                        if fd and solver == "kpm":
                            continue
                        out.append(dict(cls="implicit-leak", blocks=list(nexp_blocks), which=which, hermitian=herm, solver=solver,
                                        fd=fd, total=2))
    # (o) the same (non-Hermitian) symbolic Hamiltonian used with hermitian=True and hermitian=False one after the other:
    #     the rejection / acceptance must not depend on the earlier call
    for seq in ("T-then-F", "F-then-T", "T-then-T", "F-then-F-then-T"):
        for order in (1, 2):
            out.append(dict(cls="flag-sequence", seq=seq, order=order, total=2))
    # (m) second-quantised H_0 that is not number conserving in some (each in turn / all) of its internal levels
    for nlev in (1, 2, 3):
        for bad in itertools.product((0, 1), repeat=nlev):
            if not any(bad):
                continue
            for split in ("single-block", "blocks") if nlev > 1 else ("single-block",):
                for drive in ("x", "a2", "hop"):
                    out.append(dict(cls="sq-h0-nonconserving", nlev=nlev, bad=list(bad), split=split, drive=drive, total=2))
    # (j) finiteness on the well-posed float lattice
    for herm in (True, False):
        for st in lattice.structures(3, hermitian=herm, ks=(1,)):
            for rep in ("dense", "csr", "float") if herm else ("dense", "csr"):
                out.append(dict(st, cls="finite", repr=rep, vset=1, total=4))
    for c in out:
        c["seed"] = seed
        c.setdefault("vset", 0)
    return out


def _v(what):
    return dict(what=what, key=None)


def classify_exception(e):
    if isinstance(e, REJECTIONS):
        return "rejected"
    return f"bad-exception:{type(e).__name__}: {str(e)[:100]}"


def build_and_probe(Hd, kwargs, sizes_pos, total, exact, k=1):
    """Construct; then request every element ascending.  Returns ('rejected-at-construction', None)
    or ('constructed', {(name, i, j, n): ('value', ndarray-like) | ('rejected',) | ('bad', msg)})."""
    from pymablock import block_diagonalize

    try:
        with warnings.catch_warnings(record=True) as wlist:
            warnings.simplefilter("always")
            outs = block_diagonalize(Hd, **kwargs)
    except REJECTIONS:
        return "rejected-at-construction", None, []
    except Exception as e:  # noqa: BLE001
        return f"bad-exception-at-construction:{type(e).__name__}: {str(e)[:120]}", None, []
    res = {}
    nb = outs[0].shape[0]
    for n in orders_upto_total(k, total):
        for name, s in zip(("Ht", "U", "Uinv"), outs):
            for i in range(nb):
                for j in range(nb):
                    try:
                        v = s[(i, j) + n]
                        res[(name, i, j, n)] = ("value", v)
                    except REJECTIONS:
                        res[(name, i, j, n)] = ("rejected",)
                    except Exception as e:  # noqa: BLE001
                        res[(name, i, j, n)] = ("bad", f"{type(e).__name__}: {str(e)[:100]}")
    return "constructed", res, [str(w.message)[:80] for w in wlist]


def run_case(case):
    cls = case["cls"]
    if cls == "finite":
        res = run_cfg(case, case["seed"], set())
        out = {k: v for k, v in res.items() if not k.startswith("_")}
        out["sample"] = describe(case) | {"cls": cls}
        return out
    fn = globals()["run_" + cls.replace("-", "_")]
    V, nontrivial, outcome = fn(case)
    return dict(violations=[_v(f"{w} [{cls} {describe_short(case)}]") for w in V[:4]], nontrivial=nontrivial,
                outcome=f"{cls}:{outcome}", sample={k: v for k, v in case.items() if k != "seed"})


def describe_short(case):
    keys = ("sizes", "E", "fd", "pos", "repr", "hermitian", "defect", "order", "nsym", "rel", "big", "ops", "others", "bad", "nlev", "split", "drive", "blocks", "which", "solver", "seq", "tri", "decouple")
    return {k: case[k] for k in keys if k in case}


# ---------------------------------------------------------------- (a)
def run_h0_offdiag(case):
    import sympy

    rep = case["repr"]
    base_rep = "sympy" if rep.startswith("sympy") else rep
    cfg = dict(case, repr=base_rep)
    values = lattice.gen_values(cfg, case["seed"])
    Hd, kwargs = lattice.library_input(cfg, values)
    off = offsets(case["sizes"])
    bi, bj = case["pos"]
    a, b = off[bi], off[bj]  # first state of each block
    z = (0,)
    h0 = Hd[z]
    if base_rep == "sympy":
        h0 = h0.copy()
        val = sympy.Symbol("g", real=True) if rep == "sympy-symbolic" else sympy.Integer(2)
        h0[a, b] = val
        if case["hermitian"]:
            h0[b, a] = val
    else:
        dense = h0.toarray() if hasattr(h0, "toarray") else np.array(h0)
        dense = dense.astype(complex)
        dense[a, b] = 2
        if case["hermitian"]:
            dense[b, a] = 2
        from scipy import sparse

        h0 = sparse.csr_array(dense) if rep == "csr" else dense
    Hd[z] = h0
    status, res, wl = build_and_probe(Hd, kwargs, None, case["total"], base_rep == "sympy")
    V = []
    if status.startswith("bad"):
        V.append(f"H_0 with a non-zero off-diagonal block raises {status}")
    elif status == "constructed":
        if rep == "sympy-symbolic":
            # symbolic g may vanish: undecidable, a warning is the documented behaviour
            if not any("block-diagonal" in w for w in wl):
                V.append("H_0 with an undecidable off-diagonal block neither rejected nor warned about")
        else:
            V.append("H_0 with a decidably non-zero off-diagonal block was accepted (results silently ignore it)")
    return V, True, status.split(":")[0]


# ---------------------------------------------------------------- (b)
def run_shared_level(case):
    exact = case["repr"] == "sympy"
    herm = case["hermitian"]
    sizes = case["sizes"]
    off = offsets(sizes)
    bi, bj = case["pos"]
    E = [list(e) for e in case["E"]]
    src = off[bi + 1] - 1  # last state of block bi
    dst = off[bj]  # first state of block bj
    old = tuple(E[dst])
    shared = list(E[src])
    # move the whole level of dst onto the shared value (keeps the degeneracy pattern inside bj)
    for a in range(off[bj], off[bj + 1]):
        if tuple(E[a]) == old:
            E[a] = list(shared)
    cfg = dict(case, E=E)
    values = lattice.gen_values(cfg, case["seed"])
    if case.get("decouple"):
        # the states sharing the level are not coupled directly: the ill-defined denominator is first needed when
        # they get coupled through a third state at second order
        for m in values.values():
            for a in range(off[bi], off[bi + 1]):
                for b_ in range(off[bj], off[bj + 1]):
                    if E[a] == shared and E[b_] == shared:
                        m[a, b_] = 0
                        m[b_, a] = 0
    Hd, kwargs = lattice.library_input(cfg, values)
    status, res, _ = build_and_probe(Hd, kwargs, None, case["total"], exact)
    V = []
    if status.startswith("bad"):
        return [f"shared level: {status}"], True, "bad"
    if status == "rejected-at-construction":
        return [], True, "rejected-at-construction"
    # delta-splitting oracle: an element needs the ill-defined energy difference iff its exact
    # reference value, as a rational function of the splitting delta, has a pole at delta = 0
    orders = orders_upto_total(1, case["total"])
    refs = []
    for delta in (Fraction(1, 10**6), Fraction(1, 10**9)):
        Ed = [Q(e[0], e[1]) for e in E]
        for a in range(off[bj], off[bj + 1]):
            if E[a] == shared:
                Ed[a] = Ed[a] + Q(delta)
        Hx = exact_H(dict(cfg), values)
        Hx[(0,)] = M.diag(Ed)
        try:
            solver = refsolve.hermitian if herm else refsolve.nonhermitian
            refs.append(dict(zip(("U", "Uinv", "Ht"), solver(Hx, Ed, R_for(cfg, Ed), orders))))
        except ZeroDivisionError:
            return [], False, "reference-degenerate"
    pos = positions(cfg)
    needs_any = False
    for (name, i, j, n), r in res.items():
        rows, cols = pos[i], pos[j]
        a = refs[0][name][n].sub(rows, cols).tonp()
        b = refs[1][name][n].sub(rows, cols).tonp()
        big_a = float(np.abs(a).max()) if a.size else 0.0
        big_b = float(np.abs(b).max()) if b.size else 0.0
        needs = big_b > 10 * big_a + 1e3 or big_b > 1e5
        regular = np.allclose(a, b, atol=1e-3 * max(1.0, big_a))
        needs_any |= needs
        if r[0] == "bad":
            V.append(f"element {name}[{i},{j},{list(n)}] raises {r[1]} (not a documented rejection)")
        elif r[0] == "value":
            got = lattice.block_to_np(r[1], (len(rows), len(cols)))
            g = np.zeros((len(rows), len(cols)), dtype=complex) if got is None else np.array(
                [[complex(q(x)) for x in row] for row in got], dtype=complex)
            if needs:
                V.append(f"element {name}[{i},{j},{list(n)}] needs the energy difference of the shared level (its reference value diverges as the splitting goes to 0) but a value was returned")
            elif not np.isfinite(g).all():
                V.append(f"element {name}[{i},{j},{list(n)}] is not finite")
            elif regular and not np.allclose(g, b, atol=1e-4 * max(1.0, big_b)):
                V.append(f"element {name}[{i},{j},{list(n)}] does not involve the shared level but differs from the (delta -> 0) reference")
    return V, needs_any, "probed" + ("/needs" if needs_any else "/decoupled")


def R_for(cfg, Ed):
    """Eliminate mask for the delta-regularised energies: selections made by 'equal energies'
    inside fully diagonalised blocks must use the *unregularised* energies (that is what the
    library is given), so reuse eliminate_mask(cfg)."""
    return eliminate_mask(cfg)


# ---------------------------------------------------------------- (c), (d)
def _mask_case(case, make_mask):
    cfg = dict(case)
    b, i, j = case["pos"]
    s = case["sizes"][b]
    m = make_mask(s, i, j)
    cfg["mask"] = {str(b): m}
    # valid (all-False, symmetric) masks for the other blocks, placed after / before the offending entry
    rest = {str(o): [[0] * so for _ in range(so)] for o, so in enumerate(case["sizes"]) if o != b}
    if case.get("others") == "after":
        cfg["mask"] = {str(b): m, **rest}
    elif case.get("others") == "before":
        cfg["mask"] = {**rest, str(b): m}
    cfg["fd"] = None
    values = lattice.gen_values(cfg, case["seed"])
    Hd, kwargs = lattice.library_input(cfg, values)
    if case.get("bare_ok") and len(case["sizes"]) == 1:
        kwargs["fully_diagonalize"] = kwargs["fully_diagonalize"][0]
    return build_and_probe(Hd, kwargs, None, case["total"], case["repr"] == "sympy")


def run_mask_degenerate(case):
    def mk(s, i, j):
        m = [[0] * s for _ in range(s)]
        if case.get("tri", "both") in ("both", "upper"):
            m[i][j] = 1
        if case.get("tri", "both") in ("both", "lower"):
            m[j][i] = 1
        return m

    status, res, _ = _mask_case(case, mk)
    if status == "rejected-at-construction":
        return [], True, status
    if status.startswith("bad"):
        return [f"mask selecting a degenerate pair: {status}"], True, "bad"
    V = []
    for key, r in res.items():
        if r[0] == "bad":
            V.append(f"mask selecting a degenerate pair: element {key} raises {r[1]}")
            break
    if not V and not any(r[0] == "rejected" for r in res.values()):
        V.append("mask selecting a degenerate pair was accepted and every element was answered")
    return V, True, "constructed"


def run_mask_asymmetric(case):
    def mk(s, i, j):
        m = [[0] * s for _ in range(s)]
        m[i][j] = 1
        return m

    status, res, _ = _mask_case(case, mk)
    if status == "rejected-at-construction":
        return [], True, status
    if status.startswith("bad"):
        return [f"asymmetric mask in Hermitian mode: {status}"], True, "bad"
    return ["asymmetric mask in Hermitian mode was accepted"], True, "constructed"


# ---------------------------------------------------------------- (e), (f), (h), (i)
def run_options(case):
    import sympy

    from pymablock import block_diagonalize

    sizes = case["sizes"]
    N = sum(sizes)
    defect = case["defect"]
    sym = case["repr"] == "sympy"
    herm = case["hermitian"]
    E = lattice.POOL[:N]
    rng = np.random.default_rng([case["seed"], N, 17])
    A = rng.integers(-3, 4, (N, N)) + 1j * rng.integers(-3, 4, (N, N))
    h1 = np.triu(A, 1) + np.triu(A, 1).conj().T + np.diag(np.diag(A).real)
    off = offsets(sizes)
    eye = np.eye(N)
    vecs = [eye[:, off[b] : off[b + 1]].copy() for b in range(len(sizes))]
    kwargs = dict(hermitian=herm)
    if sym:
        toS = lambda m: sympy.Matrix(m.shape[0], m.shape[1], lambda i, j: sympy.nsimplify(m[i, j].real) + sympy.I * sympy.nsimplify(m[i, j].imag))  # noqa: E731
        H = [sympy.diag(*E), toS(h1)]
        conv = toS
    else:
        H = [np.diag(np.array(E, float)), h1]
        conv = lambda m: np.array(m, dtype=complex)  # noqa: E731
        if case["repr"] not in ("dense", "sympy"):
            from scipy import sparse

            cls_ = getattr(sparse, case["repr"])
            conv = lambda m: cls_(np.array(m, dtype=complex))  # noqa: E731
    expect = REJECTIONS
    if defect == "scaled":
        vecs[0] = vecs[0] * 2
        kwargs["subspace_eigenvectors"] = tuple(conv(v.astype(complex)) for v in vecs)
    elif defect == "scaled-down":  # deviations of L† R from 1 with negative sign only
        vecs[0] = vecs[0] * 0.9
        kwargs["subspace_eigenvectors"] = tuple(conv(v.astype(complex)) for v in vecs)
    elif defect == "nonorthogonal-negative":
        v = vecs[-1].copy()
        v[:, 0] = v[:, 0] - 0.3 * vecs[0][:, 0]
        v[:, 0] /= np.linalg.norm(v[:, 0])  # normalised, overlap with the first subspace is negative
        vecs[-1] = v
        kwargs["subspace_eigenvectors"] = tuple(conv(x.astype(complex)) for x in vecs)
    elif defect in ("biorth-broken-sign", "biorth-broken-phase"):
        pairs = []
        for b, v in enumerate(vecs):
            L = v.astype(complex).copy()
            if b == 0:
                L[:, 0] = L[:, 0] * (-1 if defect.endswith("sign") else 1j)  # L† R = -1 (or -i) in one state
            pairs.append((conv(v.astype(complex)), conv(L)))
        kwargs["subspace_eigenvectors"] = tuple(pairs)
    elif defect == "overlap":
        vecs[-1] = vecs[-1].copy()
        vecs[-1][:, 0] = vecs[0][:, 0]
        kwargs["subspace_eigenvectors"] = tuple(conv(v.astype(complex)) for v in vecs)
    elif defect == "nonorthogonal":
        vecs[-1] = vecs[-1].copy()
        vecs[-1][:, 0] = vecs[-1][:, 0] + 0.5 * vecs[0][:, 0]
        kwargs["subspace_eigenvectors"] = tuple(conv(v.astype(complex)) for v in vecs)
    elif defect in ("overlap-e0", "overlap-e0-pairs"):
        # orthonormal inside each subspace, but the last subspace is tilted towards the zero-energy
        # state of the first one: the projected H_0 stays block diagonal, only the overlap check can see it
        v = vecs[-1].copy()
        v[:, 0] = v[:, 0] + 0.5 * eye[:, 0]
        v[:, 0] /= np.linalg.norm(v[:, 0])
        vecs[-1] = v
        if defect == "overlap-e0":
            kwargs["subspace_eigenvectors"] = tuple(conv(x.astype(complex)) for x in vecs)
        else:
            if sym:
                return [], False, "n/a"
            kwargs["hermitian"] = False
            pairs = []
            for x in vecs:
                L = x @ np.linalg.inv(x.conj().T @ x)
                pairs.append((x.astype(complex), L.astype(complex)))
            kwargs["subspace_eigenvectors"] = tuple(pairs)
    elif defect in ("RL-in-hermitian-last", "RL-in-hermitian-last-dual"):
        if sym:
            return [], False, "n/a"
        last = vecs[-1].astype(complex)
        if defect.endswith("dual"):
            R_ = last * 2.0  # rescaled vectors with their dual basis: L† R = 1 but L != R
            L_ = last / 2.0
        else:
            R_, L_ = last, last.copy()
        kwargs["subspace_eigenvectors"] = tuple([x.astype(complex) for x in vecs[:-1]] + [(R_, L_)])
    elif defect == "biorth-broken":
        pairs = []
        for b, v in enumerate(vecs):
            L = v.copy()
            if b == 0:
                L = L * 3  # L† R = 3 != 1
            pairs.append((conv(v.astype(complex)), conv(L.astype(complex))))
        kwargs["subspace_eigenvectors"] = tuple(pairs)
    elif defect == "RL-in-hermitian":
        kwargs["subspace_eigenvectors"] = tuple((conv(v.astype(complex)), conv(v.astype(complex))) for v in vecs)
    elif defect == "both-args":
        kwargs["subspace_eigenvectors"] = tuple(conv(v.astype(complex)) for v in vecs)
        kwargs["subspace_indices"] = lattice.block_of(sizes)
    elif defect == "fd-custom-solver":
        kwargs["subspace_indices"] = lattice.block_of(sizes)
        kwargs["fully_diagonalize"] = (0,)
        kwargs["solve_sylvester"] = lambda Y, index: Y
    elif defect == "fd-implicit":
        if sym:
            return [], False, "n/a"
        from scipy import sparse

        H = [sparse.csr_array(np.diag(np.array(lattice.POOL[: N + 2], float))), np.pad(h1, ((0, 2), (0, 2)))]
        eye2 = np.eye(N + 2)
        vv = [eye2[:, off[b] : off[b + 1]].copy() for b in range(len(sizes))]
        kwargs["subspace_eigenvectors"] = tuple(vv)
        kwargs["fully_diagonalize"] = (len(sizes),)
    elif defect == "ndarray-fd-multiblock":
        kwargs["subspace_indices"] = lattice.block_of(sizes)
        kwargs["fully_diagonalize"] = np.zeros((sizes[0], sizes[0]), dtype=bool)
    try:
        with warnings.catch_warnings():
            warnings.simplefilter("ignore")
            outs = block_diagonalize(H, **kwargs)
            # some conflicts may legitimately surface at first evaluation
            for n in (1, 2):
                for s in outs:
                    for i in range(s.shape[0]):
                        for j in range(s.shape[1]):
                            s[i, j, n]
    except expect:
        return [], True, "rejected"
    except Exception as e:  # noqa: BLE001
        return [f"{defect}: raises {type(e).__name__}: {str(e)[:100]} instead of ValueError/TypeError/NotImplementedError"], True, "bad"
    return [f"{defect}: accepted and answered"], True, "accepted"


# ---------------------------------------------------------------- (g)
def run_symbolic_nonhermitian(case):
    import sympy

    from pymablock import block_diagonalize

    x, y = sympy.symbols("x y", real=True)
    syms = [x, y][: case["nsym"]]
    m = case["order"]
    H = sympy.Matrix([[0, x, x**2], [x, 1, x + x**3], [x**2, x + x**3, 3]])
    if case["nsym"] == 2:
        H = H + y * sympy.Matrix([[1, 0, 1], [0, 0, 0], [1, 0, 0]])
    bad = sympy.zeros(3, 3)
    bad[0, 2] = sympy.I if m else 1  # anti-Hermitian / non-symmetric entry at order x**m
    bad[2, 0] = sympy.I if m else 0
    if m == 0:
        bad = sympy.zeros(3, 3)
        bad[0, 0] = sympy.I  # non-real diagonal at order zero keeps H_0 block-diagonal but not Hermitian
    H = H + bad * x**m
    if case.get("ops"):
        from sympy.physics.quantum import Dagger
        from sympy.physics.quantum.boson import BosonOp

        a = BosonOp("a")
        w = sympy.Symbol("omega", positive=True)
        H = H + w * Dagger(a) * a * sympy.eye(3)
        if case["ops"] == "boson-h0-and-h1":  # a Hermitian operator-valued term at an order other than m
            other = 1 if m != 1 else 2
            H = H + x**other * sympy.Matrix([[0, a, 0], [Dagger(a), 0, 0], [0, 0, 0]])
        if case["ops"] == "boson-term":  # the offending term itself is operator valued: a in both [0,2] and [2,0]
            H = H - bad * x**m + x**m * sympy.Matrix([[0, 0, a], [0, 0, 0], [a, 0, 0]])
    V = []
    try:
        with warnings.catch_warnings():
            warnings.simplefilter("ignore")
            outs = block_diagonalize(H, subspace_indices=[0, 1, 1], symbols=syms)
    except REJECTIONS:
        return [], True, "rejected-at-construction"
    except Exception as e:  # noqa: BLE001
        return [f"raises {type(e).__name__}: {str(e)[:100]} at construction"], True, "bad"
    k = case["nsym"]
    answered_needing = []
    for n in orders_upto_total(k, case["total"]):
        needs = n[0] >= m
        for name, s in zip(("Ht", "U", "Uinv"), outs):
            for i in range(2):
                for j in range(2):
                    try:
                        with warnings.catch_warnings():
                            warnings.simplefilter("ignore")
                            s[(i, j) + n]
                    except REJECTIONS:
                        continue
                    except Exception as e:  # noqa: BLE001
                        V.append(f"{name}[{i},{j},{list(n)}] raises {type(e).__name__}: {str(e)[:80]}")
                        continue
                    if needs and sum(n) >= max(m, 1):
                        answered_needing.append((name, i, j, n))
    # an element at order n >= m whose value involves the non-Hermitian term must not be answered:
    # H_tilde(0,0) at exactly order m involves the [0,0]/[0,2] term directly
    direct = [a for a in answered_needing if a[0] == "Ht" and a[1] == a[2] and a[3][0] == max(m, 1) and sum(a[3]) == max(m, 1)]
    if m >= 1 and direct:
        V.append(f"non-Hermitian symbolic term at order x^{m} in Hermitian mode: H_tilde at that order was answered {direct[:2]}")
    if m == 0 and answered_needing:
        V.append("non-Hermitian H_0 in Hermitian mode was accepted and elements answered")
    return V, True, "constructed"


def run_symbolic_nonhermitian_scalar(case):
    import sympy
    from sympy.physics.quantum import Dagger
    from sympy.physics.quantum.boson import BosonOp

    from pymablock import block_diagonalize

    a = BosonOp("a")
    x = sympy.Symbol("x", real=True)
    w = sympy.Symbol("omega", positive=True)
    m = case["order"]
    H = w * Dagger(a) * a + x * (a + Dagger(a)) + x**2 * (a**2 + Dagger(a) ** 2)
    bad = {"cnumber": sympy.I, "operator": sympy.I * Dagger(a) * a, "missing-hc": a**3}[case["bad"]]
    if m == 0 and case["bad"] == "missing-hc":
        return [], False, "not-applicable"  # a number-changing H_0 is a different class (H_0 not diagonal)
    H = H + bad * x**m
    V = []
    try:
        with warnings.catch_warnings():
            warnings.simplefilter("ignore")
            outs = block_diagonalize(H, symbols=[x])
    except REJECTIONS:
        return [], True, "rejected-at-construction"
    except Exception as e:  # noqa: BLE001
        return [f"raises {type(e).__name__}: {str(e)[:100]} at construction"], True, "bad"
    answered = []
    for n in range(case["total"] + 1):
        try:
            with warnings.catch_warnings():
                warnings.simplefilter("ignore")
                outs[0][0, 0, n]
        except REJECTIONS:
            continue
        except Exception as e:  # noqa: BLE001
            V.append(f"Ht[0,0,{n}] raises {type(e).__name__}: {str(e)[:80]}")
            continue
        if n >= max(m, 1):
            answered.append(n)
    if max(m, 1) in answered:
        V.append(f"scalar second-quantised input with a non-Hermitian {case['bad']} term at order x^{m}: H_tilde at order {max(m, 1)} was answered")
    return V, True, "constructed"


def run_implicit_leak(case):
    from scipy import sparse

    from pymablock import block_diagonalize

    n = 7
    blocks = case["blocks"]
    nexp = sum(blocks)
    rng = np.random.default_rng([case["seed"], n, nexp, 23])
    E = np.array([0.0, 1.0, 3.0, 7.0, 12.0, 20.0, 33.0])
    A = rng.normal(size=(n, n)) + 1j * rng.normal(size=(n, n))
    Q, _ = np.linalg.qr(A)
    h0 = Q @ np.diag(E) @ Q.conj().T
    B = rng.normal(size=(n, n)) + 1j * rng.normal(size=(n, n))
    h1 = B + B.conj().T if case["hermitian"] else B
    vec = Q[:, :nexp].copy()
    w, theta = case["which"], 0.3
    vec[:, w] = np.cos(theta) * Q[:, w] + np.sin(theta) * Q[:, n - 2]  # still orthonormal, no longer invariant
    off = [0] + list(np.cumsum(blocks))
    kwargs = dict(subspace_eigenvectors=tuple(vec[:, off[b] : off[b + 1]] for b in range(len(blocks))), hermitian=case["hermitian"])
    if case["solver"] == "kpm":
        kwargs["direct_solver"] = False
        kwargs["solver_options"] = {"atol": 1e-4}
    if case["fd"]:
        kwargs["fully_diagonalize"] = case["fd"]
    status, res, _ = build_and_probe([sparse.csr_array(h0), sparse.csr_array(h1)], kwargs, None, case["total"], False)
    if status == "rejected-at-construction":
        return [], True, status
    if status.startswith("bad"):
        return [f"implicit mode with a non-invariant explicit subspace: {status}"], True, "bad"
    V = []
    for key, r in res.items():
        if r[0] == "bad":
            V.append(f"implicit mode with a non-invariant explicit subspace: element {key} raises {r[1]}")
            break
    if not V and not any(r[0] == "rejected" for r in res.values()):
        V.append("implicit mode: explicit vectors that are orthonormal but not an invariant subspace of H_0 were accepted and every element answered")
    return V, True, "constructed"


def run_flag_sequence(case):
    import sympy

    from pymablock import block_diagonalize

    x = sympy.Symbol("x", real=True)
    m = case["order"]
    H0 = sympy.diag(0, 1, 3)
    A = sympy.Matrix([[0, 1, 2], [1, 0, 1], [2, 1, 1]])
    Bad = sympy.Matrix([[0, sympy.I, 0], [sympy.I, 0, 2], [0, 1, 0]])  # neither Hermitian nor anti-Hermitian
    H = H0 + x * A + x**m * Bad
    terms = {(0,): H0, (1,): A}
    terms[(m,)] = terms.get((m,), sympy.zeros(3, 3)) + Bad
    V = []

    def call(flag):
        """'rejected' or the list of requested values."""
        try:
            with warnings.catch_warnings():
                warnings.simplefilter("ignore")
                outs = block_diagonalize(H, subspace_indices=[0, 1, 1], symbols=[x], hermitian=flag)
                return [outs[w_][(i, i, n)] for w_ in range(3) for i in range(2) for n in range(case["total"] + 1)]
        except REJECTIONS:
            return "rejected"

    flags = [f == "T" for f in case["seq"].split("-then-")]
    results = [call(f) for f in flags]
    with warnings.catch_warnings():
        warnings.simplefilter("ignore")
        ref = block_diagonalize(terms, subspace_indices=[0, 1, 1], hermitian=False)
        want = [ref[w_][(i, i, n)] for w_ in range(3) for i in range(2) for n in range(case["total"] + 1)]
    for pos_, (flag, res) in enumerate(zip(flags, results)):
        if flag and res != "rejected":
            V.append(f"call {pos_ + 1} of {case['seq']}: hermitian=True on a non-Hermitian symbolic Hamiltonian was answered")
        if not flag:
            if res == "rejected":
                V.append(f"call {pos_ + 1} of {case['seq']}: hermitian=False on a valid symbolic Hamiltonian was rejected")
            else:
                for got, w_ in zip(res, want):
                    g = sympy.Matrix(got).subs(x, 1) if hasattr(got, "subs") or isinstance(got, sympy.MatrixBase) else got
                    w2 = w_
                    same_sentinel = (type(g).__name__ in ("Zero", "One") or type(w2).__name__ in ("Zero", "One"))
                    if same_sentinel:
                        if g is not w2:
                            V.append(f"call {pos_ + 1} of {case['seq']}: sentinel mismatch with the order-tuple dict input")
                        continue
                    if sympy.simplify(sympy.Matrix(g) - sympy.Matrix(w2)) != sympy.zeros(*sympy.Matrix(w2).shape):
                        V.append(f"call {pos_ + 1} of {case['seq']}: hermitian=False result differs from the same problem given as an order-tuple dict")
                        break
    return V, True, "sequence"


def run_sq_h0_nonconserving(case):
    import sympy
    from sympy.physics.quantum import Dagger
    from sympy.physics.quantum.boson import BosonOp
    from sympy.physics.quantum.fermion import FermionOp

    from pymablock import block_diagonalize
    from pymablock.number_ordered_form import NumberOperator

    a, c = BosonOp("a"), FermionOp("c")
    Na, Nc = NumberOperator(a), NumberOperator(c)
    R = sympy.Rational
    drive = {"x": R(1, 3) * (a + Dagger(a)), "a2": R(1, 5) * (a**2 + Dagger(a) ** 2),
             "hop": R(1, 4) * (Dagger(a) * c + Dagger(c) * a)}[case["drive"]]
    nlev = case["nlev"]
    levels = [2 * Na + R(7, 3) * Nc + 5 * i + (drive if b else 0) for i, b in enumerate(case["bad"])]
    H0 = sympy.diag(*levels)
    H1 = sympy.Matrix(nlev, nlev, lambda i, j: (a + Dagger(a)) * (1 + i + j) + (Nc if i == j else 0))
    kwargs = {}
    if case["split"] == "blocks":
        kwargs["subspace_indices"] = list(range(nlev))
    V = []
    try:
        with warnings.catch_warnings():
            warnings.simplefilter("ignore")
            outs = block_diagonalize([H0, H1], **kwargs)
    except REJECTIONS:
        return [], True, "rejected-at-construction"
    except Exception as e:  # noqa: BLE001
        return [f"raises {type(e).__name__}: {str(e)[:100]} at construction"], True, "bad"
    nb = outs[0].shape[0]
    answered = 0
    for n in (1, 2):
        for name, s_ in zip(("Ht", "U"), outs[:2]):
            for i in range(nb):
                try:
                    with warnings.catch_warnings():
                        warnings.simplefilter("ignore")
                        s_[i, i, n]
                    answered += 1
                except REJECTIONS:
                    continue
                except Exception as e:  # noqa: BLE001
                    V.append(f"{name}[{i},{i},{n}] raises {type(e).__name__}: {str(e)[:80]}")
    if answered == 2 * 2 * nb and not V:
        V.append("second-quantised H_0 with a number-changing term in some internal level was accepted and every element answered")
    return V, True, "constructed"


# ---------------------------------------------------------------- (k)
def run_threshold(case):
    from scipy import sparse

    from pymablock import block_diagonalize

    rel = float(case["rel"])
    big = case["big"]
    # two blocks (2|1); block 1's level sits at relative distance `rel` from a level of block 0
    E = [big, big + 3.0, big * (1 + rel)]
    rng = np.random.default_rng([case["seed"], 3])
    A = rng.integers(-3, 4, (3, 3)) + 1j * rng.integers(-3, 4, (3, 3))
    h1 = np.triu(A, 1) + np.triu(A, 1).conj().T + np.diag(np.diag(A).real)
    h0 = np.diag(E)
    if case["repr"] == "csr":
        h0, h1 = sparse.csr_array(h0), sparse.csr_array(h1)
    V = []
    # "share a level" = equal within the tolerance `atol` (default 1e-12) that also decides which energy
    # denominators vanish; levels that are merely close are a well-posed (if badly convergent) problem
    must_reject = big * rel <= 1e-12
    try:
        with warnings.catch_warnings():
            warnings.simplefilter("ignore")
            outs = block_diagonalize([h0, h1], subspace_indices=[0, 0, 1])
            vals = [outs[w][i, j, n] for n in (1, 2, 3) for w in range(3) for i in range(2) for j in range(2)]
    except REJECTIONS:
        if not must_reject:
            V.append(f"levels at distance {big * rel} (above atol = 1e-12) were rejected")
        return V, True, "rejected"
    except Exception as e:  # noqa: BLE001
        return [f"raises {type(e).__name__}: {str(e)[:100]}"], True, "bad"
    if must_reject:
        V.append(f"blocks share a level within atol (distance {big * rel}) but all elements were answered")
    for v in vals:
        d = lattice.block_to_np(v, np.shape(v) if hasattr(v, "shape") else (1, 1)) if v is not None else None
        if d is not None and d.dtype != object and not np.isfinite(np.asarray(d, dtype=complex)).all():
            V.append("non-finite element returned")
            break
    return V, True, "answered"


# ---------------------------------------------------------------- (l)
def run_sq_resonant(case):
    import sympy
    from sympy.physics.quantum import Dagger, pauli
    from sympy.physics.quantum.boson import BosonOp
    from sympy.physics.quantum.fermion import FermionOp

    from pymablock import block_diagonalize
    from pymablock.number_ordered_form import NumberOperator

    a, b = BosonOp("a"), BosonOp("b")
    c, d = FermionOp("c"), FermionOp("d")
    sm = pauli.SigmaMinus("s")
    N = NumberOperator
    model = case["model"]
    kwargs = {}
    if model == "boson-hop":
        H0, H1 = N(a) + N(b), Dagger(a) * b + Dagger(b) * a
    elif model == "fermion-hop":
        H0, H1 = 2 * N(c) + 2 * N(d), Dagger(c) * d + Dagger(d) * c
    elif model == "jc-resonant":
        H0, H1 = N(a) + N(sm), Dagger(sm) * a + sm * Dagger(a)
    elif model == "two-photon":
        H0, H1 = 2 * N(a) + N(b), Dagger(a) * b**2 + Dagger(b) ** 2 * a
    elif model == "fermion-spectator":
        # the coupled levels are split only by the occupation of a third fermion that the coupling does not touch
        # (for a *boson* spectator the degeneracy occurs in one occupation sector out of infinitely many and the
        # library returns the answer with its pole, e.g. 1/N_b, visible: not a shared level in the sense of the property)
        e3 = FermionOp("e")
        H0, H1 = 2 * (N(c) + N(d)) + 3 * N(e3) * N(c), Dagger(c) * d + Dagger(d) * c
    elif model == "spin-spectator":
        s2 = pauli.SigmaMinus("r")
        H0, H1 = N(a) + N(sm) + 2 * N(s2) * N(sm), Dagger(sm) * a + sm * Dagger(a)
    else:
        H0 = sympy.Matrix([[N(a) + N(b), 0], [0, N(a) + N(b) + 3]])
        H1 = sympy.Matrix([[Dagger(a) * b + Dagger(b) * a, a], [Dagger(a), 0]])
    V = []
    try:
        with warnings.catch_warnings():
            warnings.simplefilter("ignore")
            outs = block_diagonalize([H0, H1], **kwargs)
    except REJECTIONS:
        return [], True, "rejected-at-construction"
    except Exception as e:  # noqa: BLE001
        return [f"raises {type(e).__name__}: {str(e)[:100]} at construction"], True, "bad"
    rejected = 0
    for n in (1, 2):
        for name, s_ in zip(("Ht", "U", "Uinv"), outs):
            try:
                with warnings.catch_warnings():
                    warnings.simplefilter("ignore")
                    v = s_[0, 0, n]
            except REJECTIONS:
                rejected += 1
                continue
            except Exception as e:  # noqa: BLE001
                V.append(f"{name}[0,0,{n}] raises {type(e).__name__}: {str(e)[:80]}")
                continue
            txt = str(v)
            if any(t in txt for t in ("zoo", "nan", "oo")):
                V.append(f"{name}[0,0,{n}] of a resonant second-quantised problem is returned as {txt[:60]!r} instead of being rejected")
            elif name == "U" and n == 1:
                V.append(f"U[0,0,1] needs a vanishing energy denominator but a value was returned: {txt[:60]!r}")
    return V, True, "constructed" + ("/rejected" if rejected else "")
