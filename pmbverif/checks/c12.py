"""C12 -- lazy and causal: order n uses only Hamiltonian terms of order <= n, each at most once."""
from __future__ import annotations

import itertools

import numpy as np

from .. import statespace
from ..statespace import World, fingerprint
from ..worlds import herm_matrix

ID = "C12"
LEVEL = "model_checking"
TECHNIQUE = "explicit-state BFS over request histories with a logging lazily-defined Hamiltonian; per-transition causality/once-only invariants; perturb-other-terms differential"
LEVEL_TEXT = (
    "The request-history state space (cache contents + the user-eval call log) of computations on lazily defined "
    "Hamiltonians is explored breadth-first; after construction only zeroth-order terms may have been evaluated; on "
    "every transition every newly evaluated Hamiltonian index must be <= the requested multi-order componentwise and "
    "no index may be evaluated twice along any history; and for every request a twin computation whose Hamiltonian "
    "differs exactly at the orders not <= n must return a bit-identical value."
)
LEVEL_NOTE = "Trusted: the logging eval supplied by the harness; snapshot/restore conformance by fresh replay as in C10."
RULE = (
    "case = (input form: block BlockSeries | scalar BlockSeries + subspace_indices | scalar + implicit eigenvectors | "
    "sympy matrix (Taylor) ; k in {1,2}; mode) x alphabet x depth; non-trivial = more than 10 states and at least "
    "one request at an order with non-zero higher-order Hamiltonian terms present; distinct = distinct case"
)
ASSUMPTIONS = ["Hamiltonian terms non-zero at every order with total <= 4 so that any illegitimate access changes a value or the log"]

FORMS = {
    "block-k1": dict(form="block", k=1, sizes=(2, 2), E=(0, 1, 3, 7), hermitian=True),
    "block-k2": dict(form="block", k=2, sizes=(2, 1), E=(0, 1, 3), hermitian=True),
    "scalar-k1": dict(form="scalar", k=1, sizes=(2, 2), E=(0, 1, 3, 7), hermitian=True),
    "scalar-k2": dict(form="scalar", k=2, sizes=(1, 2), E=(0, 1, 3), hermitian=True),
    "scalar-k1-nh": dict(form="scalar", k=1, sizes=(2, 1), E=(0, 1, 3), hermitian=False),
    "scalar-k1-fd": dict(form="scalar", k=1, sizes=(2, 1), E=(0, 1, 3), hermitian=True, fd=(0,)),
    "implicit-k1": dict(form="implicit", k=1, sizes=(2,), E=(0, 1, 3, 7), hermitian=True),
    "block-k1-121": dict(form="block", k=1, sizes=(1, 2, 1), E=(0, 1, 3, 7), hermitian=True),
    # Hamiltonians with absent (zero) terms at orders that get requested
    "scalar-k1-gaps": dict(form="scalar", k=1, sizes=(2, 1), E=(0, 1, 3), hermitian=True, zero_orders=[[2]]),
    "scalar-k2-gaps": dict(form="scalar", k=2, sizes=(1, 2), E=(0, 1, 3), hermitian=True, zero_orders=[[1, 1], [0, 2]]),
    "implicit-k1-gaps": dict(form="implicit", k=1, sizes=(1,), E=(0, 1, 3, 7), hermitian=True, zero_orders=[[1], [3]]),
    "block-k1-gaps": dict(form="block", k=1, sizes=(2, 1), E=(0, 1, 3), hermitian=True, zero_orders=[[2]]),
}


def term(spec, order, bump=False):
    N = len(spec["E"])
    tag = 100 + sum(o * 7 ** i for i, o in enumerate(order))
    m = herm_matrix(N, tag, spec["hermitian"])
    if bump:
        m = m + (np.ones((N, N)) + np.eye(N))
    return m


class LazyWorld(World):
    def __init__(self, spec, bump_not_leq=None):
        from scipy import sparse

        from pymablock import block_diagonalize
        from pymablock.series import BlockSeries, zero

        self.spec = spec
        self.log = []
        k = spec["k"]
        E = spec["E"]
        N = len(E)
        sizes = spec["sizes"]
        off = [0] + list(np.cumsum(sizes))
        log = self.log

        def full(order):
            if not any(order):
                d = np.diag(np.array(E, float))
                return d
            if sum(order) > 4 or list(order) in spec.get("zero_orders", []):
                return None
            bump = bump_not_leq is not None and not all(o <= b for o, b in zip(order, bump_not_leq))
            return term(spec, order, bump)

        kwargs = dict(hermitian=spec["hermitian"])
        if spec["form"] == "block":
            nb = len(sizes)

            def ev(*index):
                log.append(tuple(int(x) for x in index))
                i, j, *order = index
                m = full(tuple(order))
                if m is None:
                    return zero
                blk = m[off[i] : off[i + 1], off[j] : off[j + 1]]
                if not any(order) and i != j:
                    return zero
                return blk

            H = BlockSeries(eval=ev, shape=(nb, nb), n_infinite=k, name="Huser")
        else:

            def ev(*order):
                log.append(tuple(int(x) for x in order))
                m = full(tuple(order))
                if m is None:
                    return zero
                if not any(order) and spec["form"] == "implicit":
                    return sparse.csr_array(m)
                return m

            H = BlockSeries(eval=ev, shape=(), n_infinite=k, name="Huser")
            if spec["form"] == "implicit":
                eye = np.eye(N)
                kwargs["subspace_eigenvectors"] = (eye[:, : sizes[0]],)
            else:
                kwargs["subspace_indices"] = [b for b, s in enumerate(sizes) for _ in range(s)]
        if spec.get("fd"):
            kwargs["fully_diagonalize"] = tuple(spec["fd"])
        self.user_series = H
        self.outs = block_diagonalize(H, **kwargs)
        self.log_after_construction = list(log)
        super().__init__(list(self.outs), extra_stores=[("userlog", log)])

    def order_of(self, logged):
        return logged[-self.spec["k"] :]


def letters_for(spec, depthkind):
    k = spec["k"]
    nb = len(spec["sizes"]) + (1 if spec["form"] == "implicit" else 0)
    last = nb - 1
    if k == 1:
        orders = [(1,), (2,), (3,)]
    else:
        orders = [(1, 0), (0, 1), (1, 1), (2, 0), (0, 2)]
    L = []
    for n in orders:
        L.append((0, (0, 0) + n))
        L.append((1, (0, last) + n))
    for n in orders[:2]:
        L.append((2, (last, 0) + n))
        L.append((0, (last, last) + n))
    # multi-element requests: lists paired across dimensions (numpy semantics: elementwise, not an outer
    # product), a slice of blocks, a slice of orders.  Tuples inside an index stand for lists.
    if k == 1:
        L.append((0, ((0, last), (0, last), 2)))
        L.append((1, (0, slice(None), (2, 1))))
        L.append((0, (0, 0, slice(0, 3))))
    else:
        L.append((0, (0, 0, (0, 2), (2, 0))))
        L.append((1, ((0, 0), (0, last), (1, 0), (0, 2))))
        L.append((0, (0, 0, slice(0, 2), 1)))
    return L


def as_index(idx):
    return tuple(list(x) if isinstance(x, tuple) else x for x in idx)


def requested_orders(idx, nb, k, bound=6):
    """Multi-orders selected by an index expression, from numpy on a grid of index tuples."""
    grid = np.empty((nb, nb) + (bound,) * k, dtype=object)
    for t in itertools.product(*(range(d) for d in grid.shape)):
        grid[t] = t
    sel = grid[as_index(idx)]
    sel = [sel] if isinstance(sel, tuple) else list(sel.ravel())
    return sorted({t[-k:] for t in sel})


def cases(tier, seed):
    q = tier == "quick"
    out = []
    for name in FORMS:
        out.append(dict(kind="bfs", form=name, depth=(4 if q else (6 if FORMS[name]["k"] == 1 else 5)), tier=tier))
    out.append(dict(kind="sympy", tier=tier))
    for form in ("scalar", "block2", "scalar-k2"):
        out.append(dict(kind="sq", form=form, tier=tier))
    return out


def leq(m, n):
    return all(a <= b for a, b in zip(m, n))


def run_sq(case):
    """Second-quantised Hamiltonians given as lazily defined series of operator expressions."""
    import sympy
    from sympy.physics.quantum import Dagger
    from sympy.physics.quantum.boson import BosonOp

    from pymablock import block_diagonalize
    from pymablock.number_ordered_form import NumberOperator
    from pymablock.series import BlockSeries, zero

    a = BosonOp("a")
    N = NumberOperator(a)
    form = case["form"]
    k = 2 if form == "scalar-k2" else 1
    V = []
    transitions = 0

    def term(order, bump=False):
        t = sum(order)
        extra = (N if bump else 0)
        if t == 0:
            return N + N**2 / 7
        if t == 1:
            return (a + Dagger(a)) * (order.index(1) + 1) + extra
        if t == 2:
            return a**2 + Dagger(a) ** 2 + extra
        if t == 3:
            return N * (a + Dagger(a)) + extra
        return None

    def make(log, bump_not_leq=None, locked=False):
        def val(order):
            if locked and any(order):
                raise RuntimeError("term not available")
            bump = bump_not_leq is not None and not all(o <= b for o, b in zip(order, bump_not_leq))
            return term(order, bump)

        if form == "block2":
            def ev(i, j, *order):
                log.append((int(i), int(j)) + tuple(int(x) for x in order))
                v = val(tuple(order))
                if v is None:
                    return zero
                if not any(order):
                    return sympy.Matrix([[v + (3 if i else 0)]]) if i == j else zero
                return sympy.Matrix([[v if i == j else a + 2 * Dagger(a) if i < j else Dagger(a) + 2 * a]])

            return BlockSeries(eval=ev, shape=(2, 2), n_infinite=k, name="Hsq")

        def evs(*order):
            log.append(tuple(int(x) for x in order))
            v = val(tuple(order))
            return zero if v is None else v

        return BlockSeries(eval=evs, shape=(), n_infinite=k, name="Hsq")

    # definition must only touch zeroth order, and must succeed when nothing else is available
    log = []
    try:
        block_diagonalize(make(log, locked=True))
    except Exception as e:  # noqa: BLE001
        V.append(f"defining the computation needs a non-zeroth-order term: {type(e).__name__}: {str(e)[:80]}")
    for idx in log:
        if any(idx[-k:]):
            V.append(f"construction evaluated the non-zeroth-order Hamiltonian term {idx}")
    reqs = [(1,), (2,), (3,)] if k == 1 else [(1, 0), (0, 1), (1, 1), (2, 0)]
    nb = 2 if form == "block2" else 1
    for perm in itertools.permutations(reqs, 2):
        log = []
        outs = block_diagonalize(make(log))
        for n in perm:
            mark = len(log)
            for w in range(3):
                for i in range(nb):
                    outs[w][(i, i) + n]
            transitions += 1
            for idx in log[mark:]:
                if not all(x <= y for x, y in zip(idx[-k:], n)):
                    V.append(f"request at order {n} evaluated Hamiltonian term {idx}")
        if len(set(log)) != len(log):
            V.append(f"a Hamiltonian term was evaluated more than once along requests {perm}")
    # differential: altering terms not <= n leaves the values unchanged
    for n in reqs[:3]:
        o1 = block_diagonalize(make([]))
        o2 = block_diagonalize(make([], bump_not_leq=n))
        for w in range(3):
            if str(o1[w][(0, 0) + n]) != str(o2[w][(0, 0) + n]):
                V.append(f"output {w} at order {n} changes when terms at orders not <= n are altered")
    return dict(violations=[dict(what=f"{w} [second-quantised lazy input, form={form}]", key=None) for w in V[:3]], nontrivial=True,
                outcome="sq", stats=dict(states=len(reqs) * (len(reqs) - 1), transitions=transitions, traces_validated_against_impl=0),
                sample=dict(kind="sq", form=form, requests=[list(r) for r in reqs]))


def run_case(case):
    if case["kind"] == "sympy":
        return run_sympy(case)
    if case["kind"] == "sq":
        return run_sq(case)
    spec = FORMS[case["form"]]
    k = spec["k"]
    letters = letters_for(spec, None)
    V0 = []

    def build():
        return LazyWorld(spec)

    w0 = build()
    for idx in w0.log_after_construction:
        if any(idx[-k:]):
            V0.append(f"construction evaluated a non-zeroth-order Hamiltonian term {idx}")
    # differential oracle: value with all orders not <= n altered must be bit-identical
    fresh = {}
    for l in letters:
        w = build()
        fresh[l] = fingerprint(w.outs[l[0]][as_index(l[1])])
        if any(not isinstance(x, int) for x in l[1]):
            continue  # the differential oracle is applied to the single-element requests
        n = l[1][-k:]
        wt = LazyWorld(spec, bump_not_leq=n)
        alt = fingerprint(wt.outs[l[0]][l[1]])
        if alt != fresh[l]:
            V0.append(f"value of output {l[0]} at {list(l[1])} changes when Hamiltonian terms at orders not <= {list(n)} are altered")
        # control: altering terms <= n must be visible for n of total order >= 1 (guards against a vacuous oracle)

    def request(world, letter):
        world._loglen = len(world.log)
        return fingerprint(world.outs[letter[0]][as_index(letter[1])])

    nb_out = w0.outs[0].shape[0]
    wanted = {l: requested_orders(l[1], nb_out, k) for l in letters}

    def invariant(world, hist, letter, obs):
        out = []
        ns = wanted[letter]
        new = world.log[world._loglen :]
        for idx in new:
            if not any(leq(idx[-k:], n) for n in ns):
                out.append(f"request at orders {[list(n) for n in ns]} evaluated Hamiltonian term {list(idx)} (not <= any requested order)")
        if len(set(world.log)) != len(world.log):
            dup = [i for i in set(world.log) if world.log.count(i) > 1][:2]
            out.append(f"Hamiltonian term evaluated more than once: {dup}")
        if obs != fresh[letter]:
            out.append(f"value of {letter} depends on history")
        return out

    res = statespace.bfs(build, letters, request, invariant, depthcap=case["depth"],
                         validate_cap=100 if case["tier"] == "quick" else 1500)
    viol = [dict(what=w, key=None) for w in V0[:3]]
    viol += [dict(what=f"{v['what']} [form={case['form']} history={v['hist']} then {v['letter']}]", key=None) for v in res["violations"][:6]]
    for h in res["conformance_errors"][:3]:
        viol.append(dict(what=f"snapshot/restore does not conform to a fresh replay of {h}", harness_error=True))
    return dict(
        violations=viol, nontrivial=res["states"] > 10,
        outcome=f"states~{len(str(res['states']))}digits",
        stats=dict(states=res["states"], transitions=res["transitions"], traces_validated_against_impl=res["validated"]),
        sample=dict(form=case["form"], letters=[str(l) for l in letters[:5]], depth=case["depth"], states=res["states"],
                    transitions=res["transitions"], sample_histories=[[str(x) for x in h] for h in res["sample_histories"][-2:]]),
    )


def run_sympy(case):
    """Sympy-matrix input: the internal derivative series must not be pushed beyond the requested order."""
    import sympy

    from pymablock import block_diagonalize
    from pymablock.series import BlockSeries

    V = []
    x, y = sympy.symbols("x y", real=True)
    H = sympy.Matrix([[sympy.cos(x) - 1 + y, x + x**2 * y, 0], [x + x**2 * y, 1 + sympy.exp(y) * x**2, y * x], [0, y * x, 3 + x**3]])
    states = 0
    transitions = 0
    reqs = [(1, 0), (0, 1), (1, 1), (2, 0), (2, 1), (0, 2)]
    for perm in itertools.permutations(reqs, 3):
        Ht, U, Ui = block_diagonalize(H, subspace_indices=[0, 1, 1], symbols=[x, y])
        stores = statespace.collect_stores([Ht, U, Ui])
        deriv = [o for nm, o in stores if hasattr(o, "_data") and o.shape == () and o.n_infinite == 2]
        upper = (0, 0)
        for n in perm:
            Ht[(0, 0) + n]
            transitions += 1
            upper = tuple(max(a, b) for a, b in zip(upper, n))
            for o in deriv:
                for key in o._data:
                    if not any(all(a <= b for a, b in zip(key, m)) for m in perm[: perm.index(n) + 1]):
                        V.append(f"Taylor/derivative series evaluated at {key} after requests {perm[:perm.index(n)+1]}")
        states += 1
    # differential: a term at a higher / componentwise unrelated order -- here a decidably non-Hermitian one, with
    # decidably non-zero (positive) symbols -- must not influence a request at order n: same value, no exception
    xp, yp = sympy.symbols("x y", positive=True)
    Hp = H.subs({x: xp, y: yp})
    Nbad = sympy.Matrix([[0, sympy.I, 0], [sympy.I, 1, 0], [0, 0, 0]])
    for bad_order, mono in (((3, 0), xp**3), ((1, 1), xp * yp), ((0, 2), yp**2)):
        for n in [(1, 0), (0, 1), (2, 0), (0, 2), (1, 1), (2, 1)]:
            if all(b <= a for a, b in zip(n, bad_order)):
                continue  # the request needs the altered term
            transitions += 1
            ref = block_diagonalize(Hp, subspace_indices=[0, 1, 1], symbols=[xp, yp])
            try:
                alt = block_diagonalize(Hp + mono * Nbad, subspace_indices=[0, 1, 1], symbols=[xp, yp])
                got = [o_[(0, 0) + n] for o_ in alt]
            except Exception as e:  # noqa: BLE001
                V.append(f"request at order {list(n)} fails ({type(e).__name__}: {str(e)[:60]}) because of a Hamiltonian term at order {list(bad_order)}")
                continue
            for w_, (g_, r_) in enumerate(zip(got, [o_[(0, 0) + n] for o_ in ref])):
                if fingerprint(g_) != fingerprint(r_):
                    V.append(f"output {w_} at order {list(n)} changes when the Hamiltonian term at order {list(bad_order)} is altered")
    return dict(
        violations=[dict(what=w, key=None) for w in V[:3]], nontrivial=True, outcome="sympy",
        stats=dict(states=states, transitions=transitions, traces_validated_against_impl=0),
        sample=dict(form="sympy Taylor input", requests=[list(r) for r in reqs], histories="all ordered triples"),
    )
