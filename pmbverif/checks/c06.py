"""C06 -- implicit (incomplete eigenvectors) mode equals the explicit computation."""
from __future__ import annotations

import itertools
import warnings

import numpy as np

ID = "C06"
LEVEL = "exploration"
TECHNIQUE = "bounded-exhaustive enumeration of implicit-mode configurations (ambient size x explicit block layouts x spectrum patterns x dtype mixtures x mode x fully_diagonalize subsets x solver options) with differential comparison against the complete-eigenbasis run"
LEVEL_TEXT = (
    "Every configuration in the bound is run twice through the real block_diagonalize: with only the explicit "
    "eigenvector blocks (implicit mode) and with the complete eigenbasis (explicit mode, whose correctness is C01-C05). "
    "All explicit blocks must agree, and the blocks touching the implicit subspace must be arrays/LinearOperators whose "
    "action equals the explicit result embedded with the complement eigenvectors, at every order in the bound."
)
LEVEL_NOTE = "Trusted: numpy dense algebra for the embedding; the explicit run as reference (itself tied to the exact reference by C03/C05)."
RULE = (
    "case = (n, explicit block sizes, degeneracy pattern, dtype mixture H0/H', mode (Hermitian | non-Hermitian with "
    "(R,L) pairs), fully_diagonalize subset, solver (direct default | direct with options | KPM)); all elements of the "
    "three outputs with order <= bound compared; non-trivial = perturbation couples explicit and implicit subspaces and "
    "order >= 2 terms are non-zero; distinct = distinct case"
)
ASSUMPTIONS = ["tolerance 1e-8 relative for the direct solver; KPM: 50 x requested atol x scale"]


def cases(tier, seed):
    qk = tier == "quick"
    out = []
    ns = (4, 5) if qk else (4, 5, 6, 7)
    for n in ns:
        layouts = [(1,), (2,), (1, 1), (1, 2), (2, 1), (3,)] + ([(1, 1, 1), (2, 2)] if not qk else [])
        for blocks in layouts:
            if sum(blocks) >= n:
                continue
            for deg in ("none", "pair", "nonadjacent", "descending"):
                if deg == "pair" and max(blocks) < 2:
                    continue
                if deg == "nonadjacent" and blocks[0] < 3:
                    continue
                if deg == "descending" and (sum(blocks) < 2 or (qk and n > 4)):
                    continue
                for dt in ("rr", "rc", "cc"):
                    for mode in ("herm", "nonherm", "nonherm-RL"):
                        if mode == "nonherm-RL" and dt == "rr" and qk:
                            continue
                        nb = len(blocks)
                        fds = [()] + [(b,) for b in range(nb)] + ([tuple(range(nb))] if nb > 1 else [])
                        if blocks[0] == 3 and deg == "none":
                            fds += ["mask01", "mask02"]
                        for fd in fds:
                            if qk and fd and deg == "pair" and dt != "rc":
                                continue
                            for solver in ("direct", "direct-opts"):
                                if solver == "direct-opts" and (fd or dt != "rc"):
                                    continue
                                out.append(dict(n=n, blocks=list(blocks), deg=deg, dtypes=dt, mode=mode, fd=fd if isinstance(fd, str) else list(fd),
                                                solver=solver, total=3 if qk else 4, seed=seed))
    # H_0 handed over as a dense (non-diagonal, complex Hermitian / non-symmetric) array or in csc format
    for n in (5,):
        for blocks in ((1,), (2,), (1, 1)):
            for dt in ("rc", "cc", "rr"):
                for mode in ("herm", "nonherm", "nonherm-RL"):
                    for rep in ("dense", "csc"):
                        out.append(dict(n=n, blocks=list(blocks), deg="none", dtypes=dt, mode=mode, fd=[], solver="direct",
                                        total=3, seed=seed, h0repr=rep))
            out.append(dict(n=n, blocks=list(blocks), deg="none", dtypes="rc", mode="herm", fd=[], solver="direct-opts2", total=3, seed=seed))
    # real explicit vectors and real perturbations with a complex H_0
    for blocks in ((1,), (2,), (1, 1)):
        for mode in ("herm", "nonherm-RL"):
            for fd in ((), (0,)):
                out.append(dict(n=6, blocks=list(blocks), deg="none", dtypes="cr", mode=mode, fd=list(fd), solver="direct", total=3,
                                seed=seed, layout="real-vectors-complex-h0"))
    # degenerate explicit pair with eigenvectors localised on disjoint, unequally large site sets
    for n in (6,) if qk else (6, 7):
        for blocks in ((2,), (2, 1), (3,)):
            for dt in ("rr", "rc", "cc"):
                for mode in ("herm", "nonherm"):
                    for fd in ((), (0,)):
                        out.append(dict(n=n, blocks=list(blocks), deg="pair", dtypes=dt, mode=mode, fd=list(fd), solver="direct",
                                        total=3, seed=seed, layout="localized"))
    kpm = [dict(n=5, blocks=[1], deg="none", dtypes="rr", mode="herm", fd=[], solver="kpm", total=2, seed=seed),
           dict(n=5, blocks=[1, 1], deg="none", dtypes="rr", mode="herm", fd=[], solver="kpm", total=2, seed=seed),
           dict(n=5, blocks=[2], deg="none", dtypes="cc", mode="herm", fd=[], solver="kpm-atol", total=2, seed=seed),
           dict(n=5, blocks=[1], deg="none", dtypes="rr", mode="herm", fd=[], solver="kpm-aux", total=2, seed=seed),
           dict(n=6, blocks=[1, 1], deg="none", dtypes="rc", mode="herm", fd=[], solver="kpm-aux", total=2, seed=seed),
           dict(n=6, blocks=[1], deg="none", dtypes="cc", mode="herm", fd=[], solver="kpm-aux", total=2, seed=seed),
           dict(n=5, blocks=[1], deg="none", dtypes="cc", mode="herm", fd=[], solver="kpm", total=2, seed=seed, h0repr="dense"),
           dict(n=5, blocks=[1, 1], deg="none", dtypes="cr", mode="herm", fd=[], solver="kpm-atol", total=2, seed=seed, h0repr="dense"),
           dict(n=5, blocks=[2], deg="none", dtypes="cc", mode="herm", fd=[], solver="kpm", total=2, seed=seed, h0repr="csc"),
           dict(n=6, blocks=[1, 1], deg="none", dtypes="cr", mode="herm", fd=[], solver="kpm-aux", total=2, seed=seed)]
    if not qk:
        kpm += [dict(n=6, blocks=[1, 2], deg="none", dtypes="rc", mode="herm", fd=[], solver="kpm", total=3, seed=seed),
                dict(n=6, blocks=[2], deg="pair", dtypes="rr", mode="herm", fd=[0], solver="kpm-atol", total=3, seed=seed)]
    return out + kpm


def problem(case):
    n = case["n"]
    blocks = case["blocks"]
    rng = np.random.default_rng([case["seed"], n, len(blocks), 61])
    E = np.array([float(x) for x in (0, 1, 3, 7, 12, 20, 33, 54)[:n]])
    if case["deg"] == "nonadjacent":
        E[2] = E[0]
    elif case["deg"] == "descending":
        nexp_ = sum(blocks)
        E[:nexp_] = E[:nexp_][::-1].copy()
    if case["deg"] == "pair":
        off = 0
        for b in blocks:
            if b >= 2:
                E[off + 1] = E[off]
                break
            off += b
    ch0 = case["dtypes"][0] == "c"
    cp = case["dtypes"][1] == "c"
    A = rng.normal(size=(n, n))
    if ch0:
        A = A + 1j * rng.normal(size=(n, n))
    herm = case["mode"] == "herm"
    if case.get("layout") == "localized":
        # the degenerate explicit pair lives on disjoint site sets of different size (2 sites / n - 2 sites)
        A[:, 0] = 0
        A[:2, 0] = 1
        A[:, 1] = 0
        A[2:, 1] = np.exp(1j * np.arange(n - 2)) if ch0 else 1
    if case.get("layout") == "real-vectors-complex-h0":
        # real explicit vectors (handed over as real arrays) and real perturbations, but a complex H_0:
        # real right-hand sides meet complex Green's functions
        nexp_ = sum(blocks)
        if case["mode"] == "nonherm-RL":
            T = rng.normal(size=(n, n)) + 3 * np.eye(n)
            Ec = E + 1j * np.array([0.5, -1.0, 2.0, 0.25, -0.75, 1.5, -2.0, 1.0][:n])
            Rm, Lm = T, np.linalg.inv(T).T
            h0 = T @ np.diag(Ec) @ np.linalg.inv(T)
            E = Ec
        else:
            Ac = rng.normal(size=(n - nexp_, n - nexp_)) + 1j * rng.normal(size=(n - nexp_, n - nexp_))
            Qc, _ = np.linalg.qr(Ac)
            Rm = np.eye(n, dtype=complex)
            Rm[nexp_:, nexp_:] = Qc
            h0 = Rm @ np.diag(E) @ Rm.conj().T
            Rm = np.hstack([np.eye(n)[:, :nexp_], Rm[:, nexp_:]])
            Lm = Rm
    elif case["mode"] != "nonherm-RL":
        Q, _ = np.linalg.qr(A)
        Rm, Lm = Q, Q
        h0 = Q @ np.diag(E) @ Q.conj().T
    else:
        T = A + 3 * np.eye(n)
        Rm, Lm = T, np.linalg.inv(T).conj().T
        h0 = T @ np.diag(E) @ np.linalg.inv(T)
    terms = []
    for t in range(2):
        B = rng.integers(-3, 4, (n, n)).astype(float)
        if cp:
            B = B + 1j * rng.integers(-3, 4, (n, n))
        if herm:
            B = B + B.conj().T
        terms.append(B)
    return h0, E, Rm, Lm, terms


def dense_of(v, shape):
    from scipy import sparse
    from scipy.sparse.linalg import LinearOperator

    from pymablock.series import one, zero

    if v is zero:
        return np.zeros(shape, dtype=complex)
    if v is one:
        return np.eye(shape[0], dtype=complex)
    if isinstance(v, LinearOperator):
        return np.asarray(v @ np.eye(v.shape[1]), dtype=complex)
    if sparse.issparse(v):
        return v.toarray().astype(complex)
    return np.asarray(v, dtype=complex)


def run_case(case):
    from scipy import sparse
    from scipy.sparse.linalg import LinearOperator

    from pymablock import block_diagonalize
    from pymablock.series import one, zero

    h0, E, Rm, Lm, terms = problem(case)
    n = case["n"]
    blocks = case["blocks"]
    nexp = sum(blocks)
    nb = len(blocks)
    off = [0] + list(np.cumsum(blocks))
    herm = case["mode"] == "herm"
    pairs = case["mode"] == "nonherm-RL"

    def vecs(lo, hi):
        real_ok = case.get("layout") == "real-vectors-complex-h0" and hi <= nexp
        cast = (lambda a: np.ascontiguousarray(a.real)) if real_ok else (lambda a: a.copy())
        if pairs:
            return (cast(Rm[:, lo:hi]), cast(Lm[:, lo:hi]))
        return cast(Rm[:, lo:hi])

    explicit = [vecs(off[b], off[b + 1]) for b in range(nb)]
    complete = explicit + [vecs(nexp, n)]
    H = {(0,): sparse.csr_array(h0), (1,): terms[0], (2,): terms[1]}
    if case.get("h0repr") == "dense":
        H[(0,)] = np.array(h0)  # a dense, non-diagonal (in general non-symmetric) H_0
    elif case.get("h0repr") == "csc":
        H[(0,)] = sparse.csc_array(h0)
    kwargs = dict(hermitian=herm)
    if isinstance(case["fd"], str):
        # element mask on the first explicit block: eliminate a single pair, keep the rest (a non-transitive kept set)
        m = np.zeros((blocks[0], blocks[0]), dtype=bool)
        i_, j_ = (0, 1) if case["fd"] == "mask01" else (0, 2)
        m[i_, j_] = m[j_, i_] = True
        kwargs["fully_diagonalize"] = {0: m}
    elif case["fd"]:
        kwargs["fully_diagonalize"] = tuple(case["fd"])
    ikw = dict(kwargs)
    tol = 1e-8
    if case["solver"] == "direct-opts":
        ikw["solver_options"] = {"eigenvalue_atol": 1e-9}
    elif case["solver"] == "direct-opts2":
        ikw["solver_options"] = {"max_moments": 10000}  # an option of the other solver: ignored by the direct one
    elif case["solver"] == "kpm":
        ikw["direct_solver"] = False
        tol = 50 * 1e-5
    elif case["solver"] == "kpm-aux":
        ikw["direct_solver"] = False
        ikw["solver_options"] = {"auxiliary_vectors": Rm[:, nexp : nexp + 2].copy()}
        tol = 50 * 1e-5
    elif case["solver"] == "kpm-atol":
        ikw["direct_solver"] = False
        ikw["solver_options"] = {"atol": 1e-7}
        tol = 50 * 1e-7
    V = []
    kpm_warned = False
    try:
        with warnings.catch_warnings(record=True) as wl:
            warnings.simplefilter("always")
            given_options = ikw.get("solver_options")
            options_before = None if given_options is None else {k_: (v_.copy() if hasattr(v_, "copy") else v_) for k_, v_ in given_options.items()}
            imp = block_diagonalize(H, subspace_eigenvectors=explicit, **ikw)
            exp = block_diagonalize({(0,): h0, (1,): terms[0], (2,): terms[1]}, subspace_eigenvectors=complete, **kwargs)
            Rc, Lc = Rm[:, nexp:], Lm[:, nexp:]
            sizes = list(blocks) + [n - nexp]
            nontrivial = False
            maxscale = 1.0
            results = {}
            for order in range(case["total"] + 1):
                for name, si, se in zip(("H_tilde", "U", "U_inv"), imp, exp):
                    for i in range(nb + 1):
                        for j in range(nb + 1):
                            vi = si[i, j, order]
                            ve = se[i, j, order]
                            results[(name, i, j, order)] = (vi, ve)
            kpm_warned = any(issubclass(w.category, RuntimeWarning) and "converge" in str(w.message) for w in wl)
    except Exception as e:  # noqa: BLE001
        import traceback

        return dict(violations=[dict(what=f"raises {type(e).__name__}: {str(e)[:160]} @ {traceback.format_exc().strip().splitlines()[-2][:90]} [{desc(case)}]", key=None)],
                    nontrivial=False, outcome="crash", sample=case)
    if given_options is not None:
        same_keys = set(given_options) == set(options_before)
        if not same_keys or any(not np.array_equal(given_options[k_], options_before[k_]) for k_ in options_before):
            V.append(f"the caller's solver_options dictionary was modified: {sorted(options_before)} -> {sorted(given_options)}")
    for (name, i, j, order), (vi, ve) in results.items():
        de = dense_of(ve, (sizes[i], sizes[j]))
        # embed the explicit result
        left = Rc if i == nb else None
        right = Lc.conj().T if j == nb else None
        want = de
        if left is not None:
            want = left @ want
        if right is not None:
            want = want @ right
        shape = ((n if i == nb else sizes[i]), (n if j == nb else sizes[j]))
        if i == nb and j == nb and vi is not zero and vi is not one and not isinstance(vi, LinearOperator):
            V.append(f"{name}[{i},{j},{order}] (implicit, implicit) is {type(vi).__name__}, not a LinearOperator")
        if vi is one and i == nb:
            # identity on the implicit subspace = projector on the complement
            got = Rc @ Lc.conj().T
        else:
            got = dense_of(vi, shape)
        if got.shape != want.shape:
            V.append(f"{name}[{i},{j},{order}]: shape {got.shape} vs embedded explicit {want.shape}")
            continue
        sc = max(1.0, np.abs(want).max())
        maxscale = max(maxscale, sc)
        if not np.isfinite(got).all():
            V.append(f"{name}[{i},{j},{order}] not finite")
        elif np.abs(got - want).max() > tol * sc * (10 ** order if "kpm" in case["solver"] else 1):
            # (a convergence warning does not excuse a wrong result here: none of these small problems restricts the
            # moment budget, so the expansion of a well-posed problem converges)
            V.append(f"{name}[{i},{j},{order}] of the implicit run differs from the embedded explicit result by {np.abs(got - want).max():.2e}")
        if order >= 2 and np.abs(want).max() > 1e-9 and (i == nb or j == nb or name == "H_tilde"):
            nontrivial = True
    return dict(violations=[dict(what=f"{w} [{desc(case)}]", key=None) for w in V[:4]], nontrivial=nontrivial,
                outcome=("ok" if not V else "violation") + ("/kpm-warned" if kpm_warned else ""),
                stats=dict(elements_compared=len(results)), sample=case)


def desc(case):
    return {k: v for k, v in case.items() if k != "seed"}
