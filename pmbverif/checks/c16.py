"""C16 -- Sylvester and Green's-function solvers return solutions of their equations."""
from __future__ import annotations

import itertools
import warnings

import numpy as np

ID = "C16"
LEVEL = "exploration"
TECHNIQUE = "bounded-exhaustive enumeration of solver x spectrum pattern x right-hand-side type x block index/orientation x dtype mixture, residual of the defining equation computed by the harness"
LEVEL_TEXT = (
    "Every built-in solver is called on every combination of spectrum pattern (distinct, degenerate groups, complex, "
    "scalar-zero placeholder), right-hand-side type (dense, sparse with structural zeros, sympy), block index and "
    "orientation, basis type (orthonormal / biorthogonal) and dtype mixture in the bound; the harness computes the "
    "residual of the defining equation with dense matrices and checks the range/projection conditions; the "
    "second-quantised solver is checked as an operator identity in an independent Fock-space matrix model."
)
LEVEL_NOTE = "Trusted: numpy dense algebra for residuals; pmbverif/fockmodel.py for the operator identity."
RULE = (
    "case = (solver, spectrum, rhs type, index, basis, dtypes); non-trivial = right-hand side has a non-zero entry on a "
    "pair with a non-zero energy difference; distinct = distinct case"
)
ASSUMPTIONS = ["tolerances: 1e-9 relative for direct/diagonal solvers; KPM: 50 x requested atol or a RuntimeWarning"]

SPECTRA = {
    "distinct": ([0.0, 1.0], [3.0, 7.0, 12.0]),
    "deg-inside": ([0.0, 0.0], [3.0, 3.0, 12.0]),
    "complex": ([0.5 + 1j, 1.0], [3.0 - 2j, 7.0, 12.0 + 1j]),
    "negative": ([-4.0, 1.5], [-1.0, 0.25, 100.0]),
    # coincide within atol without being bit-identical (eigensolver noise)
    "near-deg": ([0.3, 0.1 + 0.2], [3.0, 3.0000000000000004, 12.0]),
    "near-deg-atol": ([0.5, 0.5 + 1e-8], [3.0, 3.0 - 1e-9, 12.0]),
}


def cases(tier, seed):
    out = []
    # --- diagonal solver
    for spec in SPECTRA:
        for rhs in ("dense", "csr", "csr-structural-zeros", "sympy", "dense-real", "dense-int", "dense-c64", "dense-fortran",
                    "dense-readonly", "coo", "csc", "csr-int"):
            for idx in ((0, 1), (1, 0), (0, 0), (1, 1)):
                if spec.startswith("near-deg") and (rhs == "sympy" or idx[0] != idx[1]):
                    continue  # floats only; across blocks a shared level is rejected
                out.append(dict(solver="diagonal", spectrum=spec, rhs=rhs, index=list(idx), seed=seed))
    for rhs in ("dense", "csr", "sympy"):
        for idx in ((0, 1), (1, 0), (1, 1)):
            out.append(dict(solver="diagonal", spectrum="scalar-zero", rhs=rhs, index=list(idx), seed=seed))
    for rhs in ("dense", "csr", "sympy"):
        out.append(dict(solver="diagonal", spectrum="shared-across", rhs=rhs, index=[0, 1], seed=seed))
    # --- direct solver
    ns = (6,) if tier == "quick" else (6, 8)
    for n in ns:
        for blocks in ((1,), (2,), (1, 2), (2, 1), (1, 1, 1), (3,), (3, 1), (4,)):
            for deg in ("none", "pair", "triple", "nonadjacent", "descending"):
                if deg == "nonadjacent" and blocks[0] < 3:
                    continue
                if deg == "descending" and sum(blocks) < 2:
                    continue
                if deg == "pair" and max(blocks) < 2:
                    continue
                if deg == "triple" and blocks[0] < 3:
                    continue
                for basis in ("orth", "biorth"):
                    for dt in ("rr", "rc", "cc"):
                        for nonherm in ((False, True) if basis == "orth" else (True,)):
                            out.append(dict(solver="direct", n=n, blocks=list(blocks), deg=deg, basis=basis, dtypes=dt,
                                            nonhermitian=nonherm, seed=seed))
    # non-Hermitian H_0 with complex explicit eigenvalues given as (R, L) pairs; the `nonhermitian` flag only adds the
    # left-implicit solves, the right-implicit ones must be correct for either value
    for n in ns:
        for blocks in ((1,), (2,), (1, 1), (2, 1)):
            for deg in ("none", "pair") if max(blocks) >= 2 else ("none",):
                for dt in ("rc", "cc"):
                    for nonherm in (False, True):
                        out.append(dict(solver="direct", n=n, blocks=list(blocks), deg=deg, basis="biorth", dtypes=dt,
                                        nonhermitian=nonherm, layout="complexE", seed=seed))
    # two levels of one explicit subspace split by much more than atol but by less than 1e-5 of their magnitude
    for n in ns:
        for blocks in ((2,), (2, 1), (3,)):
            for basis, dts, nonherms in (("orth", ("rr", "cc"), (False, True)), ("biorth", ("cc",), (True,))):
                for dt in dts:
                    for nonherm in nonherms:
                        out.append(dict(solver="direct", n=n, blocks=list(blocks), deg="near-rel", basis=basis, dtypes=dt,
                                        nonhermitian=nonherm, seed=seed))
    # a degenerate explicit pair whose eigenvectors are localised on disjoint site sets of different size
    for n in ns:
        for blocks in ((2,), (2, 1), (3,), (4,)):
            for deg in ("pair", "triple") if blocks[0] >= 3 else ("pair",):
                for dt in ("rr", "rc", "cc"):
                    for nonherm in (False, True):
                        out.append(dict(solver="direct", n=n, blocks=list(blocks), deg=deg, basis="orth", dtypes=dt,
                                        nonhermitian=nonherm, layout="localized", seed=seed))
    # non-normal structure: (a) H_0 Hermitian on the explicit levels but non-normal on the implicit complement,
    # explicit levels given as plain bases; (b) real non-symmetric H_0 whose explicit levels are a complex-conjugate pair
    for kindp in ("nonnormal-complement", "real-nonsymmetric"):
        for blocks in ((1,), (2,), (1, 1)) if kindp == "nonnormal-complement" else ((2,), (2, 1)):
            for dt in ("rr", "rc"):
                out.append(dict(solver="direct", n=6, blocks=list(blocks), deg=kindp, basis="special", dtypes=dt, nonhermitian=True, seed=seed))
    # --- direct Green's function
    for n in (5,):
        for rank in (0, 1, 2, 3):
            for basis in ("orth", "biorth"):
                if rank == 0 and basis == "biorth":
                    continue
                for dt in ("float64", "complex128", "float32", "complex64"):
                    for vec in ("real", "complex", "matrix", "imag", "zero-imag"):
                        out.append(dict(solver="greens", n=n, rank=rank, basis=basis, dtype=dt, vec=vec, seed=seed))
                        if rank == 2 and basis == "orth":
                            out.append(dict(solver="greens", n=6, rank=rank, basis=basis, dtype=dt, vec=vec, seed=seed, layout="localized"))
    # --- KPM
    kpm = [dict(n=6, blocks=[1], opts={}), dict(n=6, blocks=[2], opts={"atol": 1e-4}),
           dict(n=6, blocks=[1, 1], opts={}), dict(n=6, blocks=[1, 1], opts={"atol": 1e-4}),
           dict(n=6, blocks=[1], opts={"max_moments": 50}), dict(n=6, blocks=[1], opts={"auxiliary_vectors": 2}),
           dict(n=6, blocks=[1, 1], opts={"auxiliary_vectors": 1, "atol": 1e-4}),
           # complex Hermitian h_0 whose explicit levels are real basis vectors, real right-hand side
           dict(n=6, blocks=[1], opts={}, layout="localized-complex"),
           dict(n=6, blocks=[1, 1], opts={"atol": 1e-6}, layout="localized-complex")]
    for sc in (1e-3, 1e-4, 1e3):
        kpm += [dict(n=6, blocks=[1], opts={}, scale=sc), dict(n=6, blocks=[1, 1], opts={}, scale=sc),
                dict(n=6, blocks=[2], opts={"atol": 1e-6}, scale=sc)]
    kpm += [dict(n=24, blocks=[2], opts={"atol": 1e-5}, layout="spin-sigma-y"),
            dict(n=24, blocks=[2, 2], opts={"atol": 1e-5}, layout="spin-sigma-y"),
            dict(n=6, blocks=[2], opts={"atol": 1e-5}, layout="descending"),
            dict(n=6, blocks=[2, 1], opts={"atol": 1e-5}, layout="descending"),
            dict(n=7, blocks=[1], opts={"atol": 1e-5, "auxiliary_vectors": 3}, layout="descending"),
            dict(n=7, blocks=[2], opts={"atol": 1e-5, "auxiliary_vectors": 2}, layout="descending")]
    if tier != "quick":
        kpm += [dict(n=8, blocks=[2, 1], opts={"atol": 1e-5}), dict(n=8, blocks=[1], opts={"atol": 1e-6, "eps": 0.05}),
                dict(n=8, blocks=[2], opts={"auxiliary_vectors": 2})]
    for kc in kpm:
        out.append(dict(solver="kpm", **kc, seed=seed))
    # --- second-quantised solver: operator identity in the Fock model
    from . import c16_sq

    out += c16_sq.cases(tier, seed)
    return out


def _viol(w, case):
    return dict(what=f"{w} [{ {k: v for k, v in case.items() if k != 'seed'} }]", key=None)


def run_case(case):
    fn = globals().get("run_" + case["solver"])
    if fn is None:
        from . import c16_sq

        return c16_sq.run_case(case)
    try:
        V, nt, outcome = fn(case)
    except Exception as e:  # noqa: BLE001
        import traceback

        V, nt, outcome = [f"raises {type(e).__name__}: {str(e)[:150]} @ {traceback.format_exc().strip().splitlines()[-2][:100]}"], True, "crash"
    return dict(violations=[_viol(w, case) for w in V[:3]], nontrivial=nt, outcome=f"{case['solver']}:{outcome}", sample=case)


def run_diagonal(case):
    import sympy
    from scipy import sparse

    from pymablock.block_diagonalization import solve_sylvester_diagonal
    from pymablock.series import zero

    rng = np.random.default_rng([case["seed"], 8])
    spec = case["spectrum"]
    atol = 1e-6 if spec == "near-deg-atol" else 1e-12
    if spec == "scalar-zero":
        eigsA, eigsB = np.array(0), np.array([3.0, 7.0, 12.0])
        shapeA = 2
    elif spec == "shared-across":
        eigsA, eigsB = np.array([0.0, 3.0]), np.array([3.0, 7.0, 12.0])
        shapeA = 2
    else:
        a, b = SPECTRA[spec]
        eigsA, eigsB = np.array(a), np.array(b)
        shapeA = 2
    sym = case["rhs"] == "sympy"
    if sym:
        toS = lambda arr: np.array([sympy.nsimplify(x.real) + sympy.I * sympy.nsimplify(x.imag) for x in np.atleast_1d(arr)], dtype=object)  # noqa: E731
        eigs = (toS(eigsA) if eigsA.shape else np.array(sympy.S.Zero), toS(eigsB))
    else:
        eigs = (eigsA, eigsB)
    solve = solve_sylvester_diagonal(eigs, atol=atol)
    i, j = case["index"]
    EA = np.broadcast_to(np.asarray([eigsA, eigsB][i], dtype=complex), (shapeA if i == 0 else 3,)).astype(complex)
    EB = np.broadcast_to(np.asarray([eigsA, eigsB][j], dtype=complex), (shapeA if j == 0 else 3,)).astype(complex)
    Y = rng.integers(-3, 4, (len(EA), len(EB))) + 1j * rng.integers(-3, 4, (len(EA), len(EB)))
    Y = Y.astype(complex)
    Y[Y == 0] = 1
    if case["rhs"] == "dense-real":
        Y = Y.real.copy()
    if case["rhs"] == "csr-structural-zeros":
        Y[0, :] = 0
        Y[:, -1] = 0
    if case["rhs"] in ("dense-int", "csr-int"):
        Y = Y.real.copy()
    if case["rhs"] == "csr-int":
        Yin = sparse.csr_array(Y.astype(np.int64))
    elif case["rhs"].startswith("csr"):
        Yin = sparse.csr_array(Y)
    elif case["rhs"] in ("coo", "csc"):
        Yin = getattr(sparse, case["rhs"] + "_array")(Y)
    elif case["rhs"] == "dense-int":
        Yin = Y.astype(np.int64)
    elif case["rhs"] == "dense-c64":
        Yin = Y.astype(np.complex64)
    elif case["rhs"] == "dense-fortran":
        Yin = np.asfortranarray(Y.copy())
    elif case["rhs"] == "dense-readonly":
        Yin = Y.copy()
        Yin.flags.writeable = False
    elif sym:
        Yin = sympy.Matrix(Y.shape[0], Y.shape[1], lambda r, c: sympy.Integer(int(Y[r, c].real)) + sympy.I * sympy.Integer(int(Y[r, c].imag)))
    else:
        Yin = Y.copy()
    V = []
    if solve(zero, (i, j)) is not zero:
        V.append("zero right-hand side does not give the zero sentinel")
    keep = Yin.copy() if isinstance(Yin, np.ndarray) else None
    try:
        X = solve(Yin, (i, j))
    except ValueError as e:
        if spec == "shared-across":
            return [], True, "rejected-shared"
        raise
    if spec == "shared-across":
        return ["blocks sharing an eigenvalue with a coupling were answered"], True, "answered"
    if sparse.issparse(X):
        Xd = X.toarray()
    elif isinstance(X, sympy.MatrixBase):
        Xd = np.array(X.tolist(), dtype=complex)
    else:
        Xd = np.asarray(X, dtype=complex)
    if not np.isfinite(Xd).all():
        V.append("solution has non-finite entries")
    if keep is not None and not np.array_equal(keep, Yin):
        V.append("the right-hand side array was modified")
    dE = EA.reshape(-1, 1) - EB.reshape(1, -1)
    res = EA.reshape(-1, 1) * Xd - Xd * EB.reshape(1, -1) - Y
    coincide = np.abs(dE) <= atol
    if np.abs(res[~coincide]).max(initial=0) > (1e-5 if case["rhs"] == "dense-c64" else 1e-9) * max(1, np.abs(Y).max()):
        V.append("E_i V - V E_j != Y where the energies differ")
    if np.abs(Xd[coincide]).max(initial=0) != 0:
        V.append("V is not zero where the energies coincide")
    if type(X).__module__.split(".")[0] != type(Yin).__module__.split(".")[0]:
        V.append(f"solution type {type(X).__name__} does not match the right-hand-side type {type(Yin).__name__}")
    return V, bool((np.abs(Y[~coincide]) > 0).any()), "solved"


def make_problem(n, blocks, deg, basis, dtypes, seed, layout=None):
    """Random-looking but deterministic H_0 with known eigendecomposition."""
    rng = np.random.default_rng([seed, n, len(blocks), 21])
    nexp = sum(blocks)
    E = np.array([float(x) for x in (0, 1, 3, 7, 12, 20, 33, 54)[:n]])
    if deg == "pair":
        # first two states of the first block with size >= 2 are degenerate
        off = 0
        for b in blocks:
            if b >= 2:
                E[off + 1] = E[off]
                break
            off += b
    elif deg == "near-rel":
        # two distinct explicit levels of one subspace: far apart on the scale of atol, close on a relative scale
        E[0], E[1] = 100.0, 100.0004
    elif deg == "triple":
        E[1] = E[0]
        E[2] = E[0]
    elif deg == "nonadjacent":  # degenerate levels whose members are not neighbours: [E1, E2, E1(, E2)]
        E[2] = E[0]
        if blocks[0] >= 4:
            E[3] = E[1]
    elif deg == "descending":  # explicit levels not sorted by energy
        nexp_ = sum(blocks)
        E[:nexp_] = E[:nexp_][::-1].copy()
    if layout == "complexE":
        E = E + 1j * np.array([0.5, -1.0, 2.0, 0.25, -0.75, 1.5, -2.0, 1.0][:n])
        if deg == "pair":
            E[1] = E[0]
    cplx_h = dtypes[0] == "c"
    A = rng.normal(size=(n, n))
    if cplx_h:
        A = A + 1j * rng.normal(size=(n, n))
    if layout == "localized":
        # the first two (degenerate) eigenvectors live on disjoint sites with unequal spread: one on two sites,
        # the other on the remaining n - 2 sites, so the rows of largest weight of the pair are linearly dependent
        A[:, 0] = 0
        A[:2, 0] = 1
        A[:, 1] = 0
        A[2:, 1] = 1 if not cplx_h else np.exp(1j * np.arange(n - 2))
    if basis == "orth":
        Q, _ = np.linalg.qr(A)
        Rm, Lm = Q, Q
        h0 = Q @ np.diag(E) @ Q.conj().T
    else:
        T = A + 3 * np.eye(n)
        Ti = np.linalg.inv(T)
        Rm, Lm = T, Ti.conj().T
        h0 = T @ np.diag(E) @ Ti
    return h0, E, Rm, Lm


def special_problem(n, blocks, kind, seed):
    rng = np.random.default_rng([seed, n, len(blocks), 404])
    nexp = sum(blocks)
    if kind == "nonnormal-complement":
        Eexp = np.array([0.0, 1.0, 3.0][:nexp])
        Mc = rng.normal(size=(n - nexp, n - nexp)) + 1j * rng.normal(size=(n - nexp, n - nexp)) + 10 * np.eye(n - nexp)
        A = rng.normal(size=(n, n)) + 1j * rng.normal(size=(n, n))
        Q, _ = np.linalg.qr(A)
        core = np.zeros((n, n), dtype=complex)
        core[:nexp, :nexp] = np.diag(Eexp)
        core[nexp:, nexp:] = Mc
        h0 = Q @ core @ Q.conj().T
        E = np.concatenate([Eexp, np.zeros(n - nexp)])
        return h0, E, Q, Q, True  # plain bases
    # real non-symmetric H_0: first explicit block = a complex-conjugate pair
    B = np.zeros((n, n))
    B[0, 0], B[0, 1], B[1, 0], B[1, 1] = 1.0, 2.0, -2.0, 1.0  # eigenvalues 1 +- 2i
    for i_ in range(2, n):
        B[i_, i_] = 4.0 + 3 * i_
    Smat = rng.normal(size=(n, n)) + 3 * np.eye(n)
    h0 = Smat @ B @ np.linalg.inv(Smat)
    w, R = np.linalg.eig(h0)
    order = np.argsort(-np.abs(w.imag) * 100 + w.real)  # the complex pair first, then ascending real parts
    w, R = w[order], R[:, order]
    L = np.linalg.inv(R).conj().T
    return h0, w, R, L, False


def run_direct(case):
    from scipy import sparse

    from pymablock.block_diagonalization import solve_sylvester_direct
    from pymablock.series import zero

    n, blocks = case["n"], case["blocks"]
    nexp = sum(blocks)
    off = [0] + list(np.cumsum(blocks))
    if case["basis"] == "special":
        h0, E, Rm, Lm, plain = special_problem(n, blocks, case["deg"], case["seed"])
        if plain:
            eigvecs = [Rm[:, off[b] : off[b + 1]] for b in range(len(blocks))]
        else:
            eigvecs = [(Rm[:, off[b] : off[b + 1]], Lm[:, off[b] : off[b + 1]]) for b in range(len(blocks))]
    else:
        h0, E, Rm, Lm = make_problem(n, blocks, case["deg"], case["basis"], case["dtypes"], case["seed"], case.get("layout"))
    if case["basis"] == "special":
        pass
    elif case["basis"] == "orth":
        eigvecs = [Rm[:, off[b] : off[b + 1]] for b in range(len(blocks))]
    else:
        eigvecs = [(Rm[:, off[b] : off[b + 1]], Lm[:, off[b] : off[b + 1]]) for b in range(len(blocks))]
    with warnings.catch_warnings():
        warnings.simplefilter("error")
        solve = solve_sylvester_direct(sparse.csr_array(h0), eigvecs, nonhermitian=case["nonhermitian"])
    Rex, Lex = Rm[:, :nexp], Lm[:, :nexp]
    P = np.eye(n) - Rex @ Lex.conj().T
    rng = np.random.default_rng([case["seed"], 77])
    V = []
    nb = len(blocks)
    nontrivial = False
    for b in range(nb):
        Eb = E[off[b] : off[b + 1]]
        rows = blocks[b]
        Y = rng.normal(size=(rows, n))
        if case["dtypes"][1] == "c":
            Y = Y + 1j * rng.normal(size=(rows, n))
        # right-implicit: index (b, implicit)
        X = solve(Y.copy(), (b, nb))
        res = np.diag(Eb) @ X - X @ h0 - Y @ P
        sc = max(1.0, np.abs(Y).max(), np.abs(X).max())
        if np.abs(res).max() > 1e-8 * sc:
            V.append(f"right-implicit ({b}, implicit): E V - V H_0 != Y P (residual {np.abs(res).max():.2e})")
        if np.abs(X @ P - X).max() > 1e-8 * sc:
            V.append(f"right-implicit ({b}, implicit): solution is not supported on the complement (V P != V)")
        nontrivial = True
        if solve(zero, (b, nb)) is not zero:
            V.append("zero right-hand side does not give zero")
        if case["nonhermitian"]:
            Yl = rng.normal(size=(n, rows))
            if case["dtypes"][1] == "c":
                Yl = Yl + 1j * rng.normal(size=(n, rows))
            Xl = solve(Yl.copy(), (nb, b))
            resl = h0 @ Xl - Xl @ np.diag(Eb) - P @ Yl
            sc = max(1.0, np.abs(Yl).max(), np.abs(Xl).max())
            if np.abs(resl).max() > 1e-8 * sc:
                V.append(f"left-implicit (implicit, {b}): H_0 V - V E != P Y (residual {np.abs(resl).max():.2e})")
            if np.abs(P @ Xl - Xl).max() > 1e-8 * sc:
                V.append(f"left-implicit (implicit, {b}): P V != V")
        else:
            try:
                solve(np.ones((n, rows)), (nb, b))
                V.append("left-implicit solve without nonhermitian=True was answered")
            except NotImplementedError:
                pass
        # explicit-explicit part
        for b2 in range(nb):
            Ye = rng.normal(size=(rows, blocks[b2])) + 0j
            E2 = E[off[b2] : off[b2 + 1]]
            shared = np.isclose(Eb.reshape(-1, 1), E2.reshape(1, -1)).any()
            try:
                Xe = solve(Ye.copy(), (b, b2))
            except ValueError:
                if b != b2 and shared:
                    continue
                raise
            dE = Eb.reshape(-1, 1) - E2.reshape(1, -1)
            rese = dE * Xe - Ye
            mask = np.abs(dE) > 1e-12
            if np.abs(rese[mask]).max(initial=0) > 1e-9:
                V.append(f"explicit ({b},{b2}): E_i V - V E_j != Y")
    return V, nontrivial, "solved"


def run_greens(case):
    from scipy import sparse

    from pymablock.linalg import direct_greens_function

    n, rank = case["n"], case["rank"]
    dt = np.dtype(case["dtype"])
    cplx = dt.kind == "c"
    rng = np.random.default_rng([case["seed"], n, rank, 3])
    E0 = 3.0
    E = np.array([E0] * rank + [float(x) for x in (0, 1, 7, 12, 20)[: n - rank]])
    A = rng.normal(size=(n, n))
    if cplx:
        A = A + 1j * rng.normal(size=(n, n))
    if case.get("layout") == "localized":  # kernel vectors on disjoint site sets of different size
        A[:, 0] = 0
        A[:2, 0] = 1
        A[:, 1] = 0
        A[2:, 1] = 1
    if case["basis"] == "orth":
        Q, _ = np.linalg.qr(A)
        Rm, Lm = Q, Q
        h = Q @ np.diag(E) @ Q.conj().T
    else:
        T = A + 3 * np.eye(n)
        Rm, Lm = T, np.linalg.inv(T).conj().T
        h = T @ np.diag(E) @ np.linalg.inv(T)
    h = h.astype(dt)
    hd = h.astype(complex)
    K, KL = Rm[:, :rank].astype(dt), Lm[:, :rank].astype(dt)
    tol = 5e-3 if dt.itemsize <= 8 and dt in (np.dtype("float32"), np.dtype("complex64")) else 1e-8
    with warnings.catch_warnings():
        warnings.simplefilter("error")
        if rank == 0:
            gf = direct_greens_function(sparse.csr_array(h), 5.0)
            Ein = 5.0
        elif case["basis"] == "orth":
            gf = direct_greens_function(sparse.csr_array(h), E0, kernel_vectors=K)
            Ein = E0
        else:
            gf = direct_greens_function(sparse.csr_array(h), E0, kernel_vectors=K, left_kernel_vectors=KL)
            Ein = E0
    P = np.eye(n) - K.astype(complex) @ KL.astype(complex).conj().T
    V = []
    shape = (n,) if case["vec"] != "matrix" else (n, 2)
    v = rng.normal(size=shape)
    if case["vec"] == "imag":  # purely imaginary right-hand side
        v = 1j * v
    elif case["vec"] == "zero-imag":  # real values held in a complex array
        v = v + 0j
    elif case["vec"] != "real":
        v = v + 1j * rng.normal(size=shape)
    # the right-hand side has the precision of the operator (mixed precision is rejected by scipy's factorisation)
    if dt.itemsize == (8 if cplx else 4):
        v = v.astype(np.complex64 if np.iscomplexobj(v) else np.float32)
    if case["vec"] == "matrix":
        xs = np.column_stack([gf(v[:, c].copy()) for c in range(v.shape[1])])
    else:
        xs = gf(v.copy())
    res = (Ein * np.eye(n) - hd) @ xs - P @ v
    sc = max(1.0, np.abs(xs).max(), np.abs(v).max())
    if not np.isfinite(xs).all() or np.abs(res).max() > tol * sc:
        V.append(f"(E - H) x != P v (residual {np.abs(res).max():.2e})")
    if np.abs(P @ xs - xs).max() > tol * sc:
        V.append("x is not in the range of the kernel-complement projector (P x != x)")
    return V, True, "solved"


def run_kpm(case):
    from scipy import sparse

    from pymablock.block_diagonalization import solve_sylvester_KPM

    n, blocks = case["n"], case["blocks"]
    opts = dict(case["opts"])
    if case.get("layout") != "spin-sigma-y":
        h0, E, Rm, Lm = make_problem(n, blocks, "none", "orth", "rr", case["seed"])
    nexp = sum(blocks)
    if case.get("layout") == "localized-complex":
        rng0 = np.random.default_rng([case["seed"], 91])
        A = rng0.normal(size=(n - nexp, n - nexp)) + 1j * rng0.normal(size=(n - nexp, n - nexp))
        Qc, _ = np.linalg.qr(A)
        h0 = np.zeros((n, n), dtype=complex)
        h0[:nexp, :nexp] = np.diag(E[:nexp])
        h0[nexp:, nexp:] = Qc @ np.diag(E[nexp:]) @ Qc.conj().T
        Rm = np.eye(n)
    special_Y = None
    if case.get("layout") == "spin-sigma-y":
        # real spin-degenerate H_0 = h (x) 1_2 with the explicit doublet written in the sigma_y eigenbasis and a
        # spin-independent perturbation: complex right-hand sides for a real operator
        m = n // 2
        rng0 = np.random.default_rng([case["seed"], 92])
        q, _ = np.linalg.qr(rng0.normal(size=(m, m)))
        # one (two) isolated level(s) below a dense band: the expansion needs far more than the first batch of moments
        Em = np.concatenate([[-3.0], [-1.5] if len(blocks) > 1 else [], np.linspace(0.0, 2.0, m - len(blocks))])
        h0 = np.kron(q @ np.diag(Em) @ q.T, np.eye(2))
        up, dn = np.array([1, 1j]) / np.sqrt(2), np.array([1, -1j]) / np.sqrt(2)
        Rm = np.column_stack([np.kron(q[:, i], sp_) for i in range(m) for sp_ in (up, dn)])
        E = np.repeat(Em, 2)
        Mp = rng0.normal(size=(m, m))
        special_Y = np.kron(Mp + Mp.T, np.eye(2))
    elif case.get("layout") == "descending":
        # explicit (and auxiliary) vectors listed in non-ascending energy order
        order = list(range(nexp))[::-1] + [n - 1, nexp, n - 2] + [i for i in range(nexp + 1, n - 2)]
        order = order[:n] if len(set(order)) == n else list(range(nexp))[::-1] + list(range(nexp, n))[::-1]
        Rm, E = Rm[:, order], E[order]
    if case.get("scale"):
        # the same problem in other energy units (meV -> eV): the accuracy request refers to the solution, whose
        # equation E V - V H_0 = Y P keeps the magnitude of Y
        h0, E = h0 * case["scale"], E * case["scale"]
    off = [0] + list(np.cumsum(blocks))
    eigvecs = tuple(Rm[:, off[b] : off[b + 1]] for b in range(len(blocks)))
    if isinstance(opts.get("auxiliary_vectors"), int):
        opts["auxiliary_vectors"] = Rm[:, nexp : nexp + opts["auxiliary_vectors"]]
    V = []
    caught = []
    with warnings.catch_warnings(record=True) as wl:
        warnings.simplefilter("always")
        solve = solve_sylvester_KPM(sparse.csr_array(h0), eigvecs, solver_options=opts)
        P = np.eye(n) - Rm[:, :nexp] @ Rm[:, :nexp].conj().T
        rng = np.random.default_rng([case["seed"], 5])
        nb = len(blocks)
        for b in range(nb):
            Eb = E[off[b] : off[b + 1]]
            Y = rng.normal(size=(blocks[b], n))
            if special_Y is not None:
                Y = eigvecs[b].conj().T @ special_Y
            sc_ = case.get("scale") or 1.0
            Y1 = Y
            Y = Y * sc_  # H -> c H rescales the right-hand sides (products of H' with U) as well
            X = solve(Y.copy(), (b, nb))
            res = np.diag(Eb) @ X - X @ h0 - Y @ P
            want = opts.get("atol", 1e-5)
            converged = not any(issubclass(w.category, RuntimeWarning) and "converge" in str(w.message) for w in wl)
            if case.get("scale"):
                # covariance under a change of energy units H -> c H: V solves c(E V - V H_0) = c Y P, i.e. it is unchanged
                solve1 = solve_sylvester_KPM(sparse.csr_array(h0 / sc_), eigvecs, solver_options=opts)
                X1 = solve1(Y1.copy(), (b, nb))
                converged = not any(issubclass(w.category, RuntimeWarning) and "converge" in str(w.message) for w in wl)
                dev = np.abs(X - X1).max()
                if converged and dev > 100 * want * max(1.0, np.abs(X1).max()):
                    V.append(f"KPM ({b}, implicit): the solution changes under H -> {sc_} H (by {dev:.2e})")
            if converged and np.abs(res).max() > 50 * want * max(1.0, np.abs(Y).max()) * n * max(1.0, sc_):
                V.append(f"KPM ({b}, implicit): residual {np.abs(res).max():.2e} exceeds 50 x requested accuracy {want} without a convergence warning")
            for b2 in range(nb):
                Ye = rng.normal(size=(blocks[b], blocks[b2]))
                if b == b2:
                    continue
                Xe = solve(Ye.copy(), (b, b2))
                dE = Eb.reshape(-1, 1) - E[off[b2] : off[b2 + 1]].reshape(1, -1)
                if np.abs(dE * Xe - Ye).max() > 1e-9 * max(1.0, np.abs(Ye).max()):
                    V.append(f"KPM explicit part ({b},{b2}): E_i V - V E_j != Y")
    return V, True, "solved"
