"""C09 -- compiling a series mini-language algorithm preserves its meaning."""
from __future__ import annotations

import itertools
import linecache

import numpy as np

from ..dslref import Interp, NotWellFounded

ID = "C09"
LEVEL = "exploration"
TECHNIQUE = "bounded-exhaustive enumeration of mini-language programs (shipped algorithms x all flag combinations + every program of a bounded grammar) x request schedules, against an independent AST interpreter of the documented semantics"
LEVEL_TEXT = (
    "Both shipped algorithms under every flag combination (two_block_optimized, commuting_blocks, diag/offdiag masks, "
    "linear-operator last block, 2 and 3 blocks, 1 and 2 parameters) and every program of a bounded grammar (start "
    "values, hermitian/antihermitian markers, diagonal/offdiagonal conditions, sums, integer division, negation, "
    "adjoints, scope functions of series and of expressions, recursive definitions through declared products, 2- and "
    "3-factor products with the hermitian flag) are compiled by the real series_computation; every element of every "
    "series and product (outputs, internal, auto-deleted ones) up to the order bound is requested under several "
    "schedules and compared with the value computed by an independent interpreter that works directly on the source."
)
LEVEL_NOTE = "Trusted: pmbverif/dslref.py (about 200 lines, parses the source with `ast`, memoised recursion, no deletion / no shortcuts); numpy for values."
RULE = (
    "case = one program (shipped algorithm + flags, or grammar program) x block count x parameters; all elements with "
    "|n| <= bound requested in ascending, descending and outputs-last order and in all 24 orders of a 4-element subset "
    "containing an auto-deleted term; non-trivial = program is well-founded and at least one compared element of order "
    ">= 2 is a non-zero matrix; programs whose reference evaluation re-enters an element are 'not well-founded': the "
    "library must raise RuntimeError for the offending elements and nothing else is compared for them"
)
ASSUMPTIONS = ["input series values are small integers (exact in floats), non-zero at orders 0..2", "tolerance 1e-9 relative"]

HEADER = "def algo():\n"


# ----------------------------------------------------------------------------- inputs
def make_H(nb, k, sizes, herm=True):
    """Block input values: callable(index) -> ndarray | zero; H_0 block diagonal."""
    from pymablock.series import zero

    off = [0] + list(np.cumsum(sizes))
    N = off[-1]
    E = [0, 1, 3, 7, 12, 20][:N]

    def Hv(index):
        i, j, *n = index
        n = tuple(n)
        if sum(n) == 0:
            return np.diag(np.array(E[off[i] : off[i + 1]], float)).astype(complex) if i == j else zero
        if sum(n) > 2:
            return zero
        r = np.random.default_rng([7, *n])
        a = r.integers(-3, 4, (N, N)) + 1j * r.integers(-3, 4, (N, N))
        m = (a + a.conj().T).astype(complex) if herm else a.astype(complex)
        return m[off[i] : off[i + 1], off[j] : off[j + 1]]

    return Hv, E, off


def same(a, b, zero, one):
    from scipy.sparse.linalg import LinearOperator

    if a is zero or b is zero:
        if a is b:
            return True
        other = b if a is zero else a
        if other is one:
            return False
        d = dense(other)
        return bool(np.abs(d).max() < 1e-12) if d.size else True
    if a is one or b is one:
        return a is b
    da, db = dense(a), dense(b)
    if da.shape != db.shape:
        return False
    return bool(np.abs(da - db).max() <= 1e-9 * max(1.0, np.abs(db).max()))


def dense(v):
    from scipy.sparse.linalg import LinearOperator

    if isinstance(v, LinearOperator):
        return np.asarray(v @ np.eye(v.shape[1]), dtype=complex)
    return np.asarray(v, dtype=complex)


# ----------------------------------------------------------------------------- shipped algorithms
def shipped_cases(tier):
    out = []
    for alg in ("main", "nonhermitian"):
        for sizes in ((2, 2), (1, 2, 1)):
            nb = len(sizes)
            for tbo in ((True, False) if (nb == 2 and alg == "main") else (False,)):
                for cb in itertools.product((True, False), repeat=nb):
                    for k in (1, 2):
                        for masks in (False, True):
                            for linop in (False, True):
                                if tbo and (masks or not all(cb)):
                                    continue  # two_block_optimized is only admissible without selective diagonalisation
                                if masks and all(cb):
                                    continue  # masks go with commuting_blocks = False on the masked block
                                if linop and (masks and not cb[-1]):
                                    continue  # the implicit block is never fully diagonalised
                                if tier == "quick" and k == 2 and (masks or linop):
                                    continue
                                out.append(dict(kind="shipped", alg=alg, sizes=list(sizes), tbo=tbo, cb=list(cb), k=k,
                                                masks=masks, linop=linop))
    return out


def run_shipped(case):
    import inspect

    from pymablock import algorithms
    from pymablock.algorithm_parsing import series_computation
    from pymablock.block_diagonalization import solve_sylvester_diagonal
    from pymablock.series import BlockSeries, one, zero
    from sympy.physics.quantum import Dagger

    alg = getattr(algorithms, case["alg"])
    sizes = case["sizes"]
    nb = len(sizes)
    k = case["k"]
    Hv, E, off = make_H(nb, k, sizes, herm=case["alg"] == "main")
    base_solver = solve_sylvester_diagonal(tuple(np.array(E[off[i] : off[i + 1]], float) for i in range(nb)))

    def ss(Y, index):
        from scipy.sparse.linalg import LinearOperator

        if isinstance(Y, LinearOperator):
            Y = np.asarray(Y @ np.eye(Y.shape[1]))
        return base_solver(Y, index)

    flags = {"two_block_optimized": case["tbo"], "commuting_blocks": list(case["cb"])}
    scope = {"solve_sylvester": ss, **flags}
    if case["masks"]:
        masked = [b for b in range(nb) if not case["cb"][b]]
        keepm = {}
        for b in masked:
            s = sizes[b]
            m = np.eye(s)
            if s > 1:
                m[0, 1] = m[1, 0] = 0  # eliminate the (0,1) pair, keep the rest
            else:
                m[:] = 1
            keepm[b] = m

        def is_series(x):
            return isinstance(x, BlockSeries) or getattr(x, "is_series_proxy", False)

        def diag(x, index):
            x = x[index] if is_series(x) else x
            if index[0] not in keepm or x is zero:
                return x
            return x * keepm[index[0]]

        def offdiag(x, index):
            if index[0] not in keepm:
                return zero
            x = x[index] if is_series(x) else x
            if x is zero:
                return zero
            return x * (1 - keepm[index[0]])

        scope["diag"] = diag
        scope["offdiag"] = offdiag
    bound = (3,) if k == 1 else (1, 1)
    names = None
    V = []
    compared = 0
    nontrivial = False
    schedules = ("asc", "desc", "outputs-last") if not case["linop"] else ("asc", "desc")
    src = inspect.getsource(alg)
    for sched in schedules:
        H = BlockSeries(eval=lambda *idx: Hv(idx), shape=(nb, nb), n_infinite=k, name="H")
        lib_scope = dict(scope)
        if case["linop"]:
            ulo = np.zeros((nb, nb), dtype=bool)
            ulo[-1, -1] = True
            lib_scope["use_linear_operator"] = ulo
        series, linops = series_computation({"H": H}, algorithm=alg, scope=lib_scope)
        ref = Interp(src, {"H": Hv}, scope, nb, k, zero, one, Dagger)
        names = ref.names()
        elements = [(name, idx) for name in names for idx in itertools.product(range(nb), range(nb), *[range(b + 1) for b in bound])]
        if sched == "desc":
            elements = elements[::-1]
        elif sched == "outputs-last":
            elements = sorted(elements, key=lambda e: (e[0] in ref.outputs, -sum(e[1][2:])))
        else:
            elements = sorted(elements, key=lambda e: (sum(e[1][2:]), names.index(e[0])))
        for name, idx in elements:
            use_lo = case["linop"] and idx[0] == nb - 1 and idx[1] == nb - 1
            try:
                lv = (linops if use_lo else series)[name][idx]
            except Exception as e:  # noqa: BLE001
                V.append(f"{name}{list(idx)} raises {type(e).__name__}: {str(e)[:80]} (schedule {sched})")
                continue
            try:
                rv = ref.elem(name, idx)
            except NotWellFounded:
                V.append(f"reference finds {name}{list(idx)} not well-founded in a shipped algorithm")
                continue
            compared += 1
            if not same(lv, rv, zero, one):
                V.append(f"{name}{list(idx)} differs from the direct interpretation of its definition (schedule {sched})")
            elif sum(idx[2:]) >= 2 and rv is not zero and rv is not one:
                nontrivial = True
    d = {kk: vv for kk, vv in case.items()}
    return dict(violations=[dict(what=f"{w} [{d}]", key=None) for w in V[:4]], nontrivial=nontrivial,
                outcome="ok" if not V else "violation", stats=dict(elements_compared=compared, programs=1), sample=d)


# ----------------------------------------------------------------------------- grammar programs
BODY_A = {
    "a1": ['"Hp"'],
    "a2": ['"Hp" + "Hp @ A"'],
    "a3": [("diagonal", '"Hp"'), ("offdiagonal", 'f("B")')],
    "a4": [("offdiagonal", '-f("Hp" + "A @ B")')],
    "a5": ['"B".adj / 2 - "Hp"'],
    "a6": [("diagonal", '("Ad @ A" + "Ad @ A".adj) / -2'), ("offdiagonal", '"Hp"')],
    "a7": ['"Hp @ A @ B" + "Hp"'],
    "a8": [("diagonal", '"Hp" + "B"'), '"Hp @ A"'],
    "a9": [("offdiagonal", '"Hp" - "Hp @ A".adj'), ("diagonal", '"Hp @ A" / -2')],
    "a10": ['"Hp"', '"B" + "B"'],
    "a11": [("diagonal", '"Ad @ H @ A" / 2 + "Hp"'), ("offdiagonal", '"Hp"')],
    "a12": [("lower", '"Hp" + "B"'), '"Hp" / 2'],
    "a13": ['zero if flagF else "Hp"', ("diagonal", '"B" if flagT else "Hp"')],
    "a14": ['g("Hp", "B")', ("offdiagonal", '-"Hp @ A"')],
    "a15": ['"Hp" / 2', ("lower", '"Hp" + "B"'), '"B"'],
    # a scope function of two *series* (it reads another order of its second argument, so it needs the series itself)
    "a18": ['lag("Hp", "B") + "Hp" / 2', ("offdiagonal", '-lag("B", "Hp")')],
    # a divided sum in which, for some indices, exactly one summand is present (the quotient must be a new value)
    "a19": ['("Hp" + "B") / 2', ("diagonal", '("B" + "Hp") / -2')],
    "a17": ['"Hp" - ("B" + "Hp @ A")', ("offdiagonal", '"Hp" - ("B".adj - "Hp" / 2)')],
    "a16": [("diagonal", '"Hp" - ("B" + "B".adj) / 2'), ("diagonal", 'zero if flags[index[0]] else "Hp @ A" + "Hp @ A".adj'),
            ("offdiagonal", '-f("Hp")')],
}
BODY_B = {
    "b1": ['"Hp"'],
    "b2": ['"A"'],
    "b3": ['"Hp @ A"'],
    "b4": [("offdiagonal", '"A".adj'), ("diagonal", '"Hp"')],
    "b5": ['"A @ B" + "Hp"'],
    "b6": ['f("A") - "Hp" / 2'],
    "b7": [("diagonal", '"Ad @ A"'), ("offdiagonal", '-"Hp @ A"')],
    "b8": ['"H" + "H"'],
    "b9": ['"Ad @ H @ A" - "Hp"'],
    "b10": ['"Hp @ A @ Hp @ A" + "Hp"'],
    "b11": [("lower", '-"A".adj'), '"Hp"'],
    "b12": ['"Hp"', ("diagonal", '"A"'), ("lower", '-"A".adj'), '"Hp @ A"'],
    "b15": [("offdiagonal", '("Hp" + "A".adj) / 2')],
    "b13": ['-(-"Hp" - "Hp @ A") / -2', ("offdiagonal", '"Hp" if flags[index[1]] else zero')],
}
# a second input series (its name is substituted for IN2): used as start value and in the body
BODY_B2 = {"b14": ['"IN2" - "Hp" / 2', ("diagonal", '"IN2"')]}
K3_BODY = {"k3a": [("diagonal", 'f("Hp")')], "k3b": [("diagonal", '"Hp" + f("B")'), ("offdiagonal", '"Hp"')]}
STARTS_A = [0, 1, "H_0", None]
MARKERS = [None, "hermitian", "antihermitian"]
STARTS_B = [0, None, "H_0"]
RETURNS = [("A",), ("A", "B")]


def render(startA, markerA, bodyA, startB, bodyB, ret, products3=True):
    def block(name, start, marker, body):
        lines = [f'    with "{name}":']
        if start is not None:
            lines.append(f"        start = {start!r}")
        if marker:
            lines.append(f"        {marker}")
        for st in body:
            if isinstance(st, tuple):
                lines.append(f"        if {st[0]}:")
                lines.append(f"            {st[1]}")
            else:
                lines.append(f"        {st}")
        return lines

    L = ["def algo():"]
    L += block("Hp", 0, None, ['"H"'])
    L += block("A", startA, markerA, bodyA)
    L += block("B", startB, None, bodyB)
    L += ['    with "Ad":', '        "A".adj']
    text = " ".join(st[1] if isinstance(st, tuple) else st for st in list(bodyA) + list(bodyB))
    for p, h in (("Hp @ A", False), ("A @ B", False), ("Ad @ A", True), ("Hp @ A @ B", False), ("Ad @ H @ A", True),
                 ("Hp @ A @ Hp @ A", False)):
        if f'"{p}"' not in text:
            continue  # only declare the products the program uses (factors of products are never auto-deleted)
        L += [f'    with "{p}":', "        hermitian" if h else "        pass"]
    L.append("    return " + ", ".join(f'"{r}"' for r in ret) + ("," if len(ret) == 1 else ""))
    return "\n".join(L) + "\n"


def grammar_cases(tier):
    out = []
    sizes_list = [(1, 2)] if tier == "quick" else [(1, 2), (1, 1, 2)]
    ks = (1,) if tier == "quick" else (1, 2)
    for sizes in sizes_list:
        for k in ks:
            for sA in STARTS_A:
                for mA in MARKERS:
                    for bA in BODY_A:
                        for sB in STARTS_B:
                            for bB in BODY_B:
                                for ret in RETURNS:
                                    if tier == "quick" and ret == ("A", "B") and (mA is not None or sA in ("H_0", None) or sB == "H_0"):
                                        continue
                                    out.append(dict(kind="grammar", sizes=list(sizes), k=k, sA=sA, mA=mA, bA=bA, sB=sB, bB=bB,
                                                    ret=list(ret)))
    # two input series; the second one has a name ending in characters of "_0_data" / a digit / an underscore
    for in2 in ("Ha", "delta", "V_0", "H2", "Hp_", "X"):
        for sB in (in2 + "_0", 0):
            for bA in ("a1", "a2"):
                out.append(dict(kind="grammar", sizes=[1, 2], k=1, sA=0, mA=None, bA=bA, sB=sB, bB="b14", ret=["A", "B"], in2=in2))
                if in2 in ("Ha", "X"):
                    # the last block is flagged as linear-operator block: its elements (inputs included) are read
                    # from the second dictionary returned by series_computation
                    out.append(dict(kind="grammar", sizes=[1, 2], k=1, sA=0, mA=None, bA=bA, sB=sB, bB="b14", ret=["A", "B"], in2=in2,
                                    linop=True))
    # the input series itself is a factor of a declared product / used directly, and is given as data only
    for bA, bB in (("a1", "b9"), ("a11", "b1"), ("a11", "b9"), ("a2", "b8"), ("a7", "b9")):
        for sA in (0, 1):
            for ret in RETURNS:
                out.append(dict(kind="grammar", sizes=[1, 2], k=1, sA=sA, mA=None, bA=bA, sB=0, bB=bB, ret=list(ret), Hdata=True))
    # the same function name defined again with a different body (notebook cell re-run, importlib.reload):
    # every compilation must follow the definition it is given
    for bA, bB, pA, pB in (("a2", "b3", "a1", "b1"), ("a1", "b1", "a2", "b3"), ("a7", "b5", "a5", "b2"), ("a3", "b4", "a4", "b6")):
        out.append(dict(kind="grammar", sizes=[1, 2], k=1, sA=0, mA=None, bA=bA, sB=0, bB=bB, ret=["A", "B"],
                        prelude=[dict(sA=0, mA=None, bA=pA, sB=0, bB=pB, ret=["A", "B"]),
                                 dict(sA=1, mA=None, bA=bA, sB=0, bB=pB, ret=["A"])]))
    for bA in K3_BODY:
        for sA in (0, 1):
            out.append(dict(kind="grammar", sizes=[1, 2], k=1, sA=sA, mA=None, bA=bA, sB=0, bB="b1", ret=["A"]))
    return out


_counter = [0]


def compile_program(src):
    """Make a function object whose source inspect.getsource can find."""
    _counter[0] += 1
    fname = f"<pmbverif-program-{_counter[0]}>"
    linecache.cache[fname] = (len(src), None, src.splitlines(True), fname)
    ns = {}
    exec(compile(src, fname, "exec"), ns)
    return ns["algo"], fname


def run_grammar(case):
    from pymablock import algorithm_parsing
    from pymablock.algorithm_parsing import series_computation
    from pymablock.series import BlockSeries, one, zero
    from sympy.physics.quantum import Dagger

    sizes = case["sizes"]
    nb = len(sizes)
    k = case["k"]
    bodyA = BODY_A.get(case["bA"]) or K3_BODY[case["bA"]]
    src = render(case["sA"], case["mA"], bodyA, case["sB"], (BODY_B | BODY_B2)[case["bB"]], case["ret"])
    in2 = case.get("in2")
    if in2:
        src = src.replace("IN2", in2)
    Hv, E, off = make_H(nb, k, sizes)

    def Hv2(idx):
        """Second input: 3 H + 1 on the diagonal blocks of order zero, -2 H elsewhere."""
        v = Hv(idx)
        if v is zero:
            return zero
        if sum(idx[2:]) == 0:
            return 3 * v + np.eye(v.shape[0])
        return -2 * v

    def is_series(x):
        return isinstance(x, BlockSeries) or getattr(x, "is_series_proxy", False)

    def f(x, index):
        v = x[index] if is_series(x) else x
        if v is zero:
            return zero
        if v is one:
            return 2 * np.eye(sizes[index[0]])
        return 2 * v

    def g(x, y, index):
        a_, b_ = f(x, index), f(y, index)
        if a_ is zero:
            return b_ if b_ is zero else 1.5 * b_
        return a_ if b_ is zero else a_ + 1.5 * b_

    def lag(x, y, index):
        """x at this index plus y one order lower in the first parameter (needs y as a series)."""
        a_ = x[index]
        if index[2] == 0:
            return a_
        prev = tuple(index[:2]) + (index[2] - 1,) + tuple(index[3:])
        b_ = y[prev]
        if b_ is zero:
            return a_
        if b_ is one:
            b_ = np.eye(sizes[index[0]])
        if a_ is one:
            a_ = np.eye(sizes[index[0]])
        return b_ if a_ is zero else a_ + b_

    scope = {"f": f, "g": g, "lag": lag, "flagT": True, "flagF": False, "flags": [True, False, True, False]}
    bound = (2,) if k == 1 else (1, 1)
    ref = Interp(src, {"H": Hv, in2: Hv2} if in2 else {"H": Hv}, scope, nb, k, zero, one, Dagger)
    names = ref.names()
    elements = [(name, idx) for name in names for idx in itertools.product(range(nb), range(nb), *[range(b + 1) for b in bound])]
    # reference values (or not-well-founded marks)
    refval = {}
    for el in elements:
        try:
            refval[el] = ("v", ref.elem(*el))
        except NotWellFounded:
            refval[el] = ("nwf",)
        except RecursionError:
            refval[el] = ("nwf",)
    wf = all(r[0] == "v" for r in refval.values())
    V = []
    key = None
    compared = 0
    nontrivial = False
    top = tuple(bound)
    subset = [("B", (0, 1) + top), ("A", (0, 0) + top), ("A", (1, 0) + top), ("Hp", (0, 1) + top)]
    schedules = [("asc", sorted(elements, key=lambda e: (sum(e[1][2:]), names.index(e[0])))),
                 ("desc", sorted(elements, key=lambda e: (-sum(e[1][2:]), -names.index(e[0])))),
                 ("outputs-last", sorted(elements, key=lambda e: (e[0] in ref.outputs, -sum(e[1][2:]))))]
    for p in itertools.permutations(subset):
        schedules.append((f"perm", list(p) + [("A", (0, 1) + top)]))
    prelude_files = []
    for spec in case.get("prelude", []):
        # other programs under the same function name, compiled and used earlier in the same process
        psrc = render(spec["sA"], spec["mA"], BODY_A[spec["bA"]], spec["sB"], BODY_B[spec["bB"]], spec["ret"])
        pfunc, pfname = compile_program(psrc)
        prelude_files.append(pfname)
        Hp_ = BlockSeries(eval=lambda *idx: Hv(idx), shape=(nb, nb), n_infinite=k, name="H")
        pseries, _ = series_computation({"H": Hp_}, algorithm=pfunc, scope=dict(scope))
        try:
            pseries["A"][(0, 1) + top]
        except RuntimeError:
            pass
    func, fname = compile_program(src)
    try:
        for sname, sched in schedules:
            H = BlockSeries(eval=lambda *idx: Hv(idx), shape=(nb, nb), n_infinite=k, name="H")
            given = None
            if case.get("Hdata"):
                # a data-only input series (nothing can be recomputed): the caller's elements must survive
                given = {idx: Hv(idx) for idx in itertools.product(range(nb), range(nb), *[range(b + 1) for b in bound])}
                H = BlockSeries(data=given, shape=(nb, nb), n_infinite=k, name="H")
            inputs_ = {"H": H}
            if in2:
                inputs_[in2] = BlockSeries(eval=lambda *idx: Hv2(idx), shape=(nb, nb), n_infinite=k, name=in2)
            lib_scope = dict(scope)
            if case.get("linop"):
                ulo = np.zeros((nb, nb), dtype=bool)
                ulo[-1, -1] = True
                lib_scope["use_linear_operator"] = ulo
            try:
                series, linops = series_computation(inputs_, algorithm=func, scope=lib_scope)
            except Exception as e:  # noqa: BLE001
                V.append(f"series_computation raises {type(e).__name__}: {str(e)[:100]}")
                break
            for el in sched:
                name, idx = el
                r = refval[el]
                use_lo = case.get("linop") and idx[0] == nb - 1 and idx[1] == nb - 1
                try:
                    lv = (linops if use_lo else series)[name][idx]
                except RuntimeError as e:
                    if r[0] == "nwf":
                        continue
                    V.append(f"{name}{list(idx)} raises RuntimeError ({str(e)[:60]}) although its definition is well-founded (schedule {sname})")
                    continue
                except TypeError as e:
                    if case["bA"] in K3_BODY and "missing 1 required positional argument" in str(e):
                        key = "K3"
                    V.append(f"{name}{list(idx)} raises TypeError: {str(e)[:100]} (schedule {sname})")
                    continue
                except Exception as e:  # noqa: BLE001
                    V.append(f"{name}{list(idx)} raises {type(e).__name__}: {str(e)[:100]} (schedule {sname})")
                    continue
                if r[0] == "nwf":
                    continue  # reference cannot say anything
                compared += 1
                if not same(lv, r[1], zero, one):
                    V.append(f"{name}{list(idx)} differs from the direct interpretation of its definition (schedule {sname})")
                elif sum(idx[2:]) >= 2 and r[1] is not zero and r[1] is not one:
                    nontrivial = True
            if given is not None:
                lost = [idx for idx, v in given.items() if H._data.get(idx) is not v]
                if lost:
                    V.append(f"elements {lost[:3]} of the caller's input series were removed or replaced (schedule {sname})")
            if len(V) > 6:
                break
    finally:
        linecache.cache.pop(fname, None)
        for pf in prelude_files:
            linecache.cache.pop(pf, None)
        getattr(algorithm_parsing._parse_algorithm, "cache_clear", lambda: None)()  # memory only; not needed for correctness
    d = dict(case)
    d["source"] = src
    return dict(violations=[dict(what=f"{w} [program sA={case['sA']} mA={case['mA']} bA={case['bA']} sB={case['sB']} bB={case['bB']} ret={case['ret']} sizes={sizes} k={k}]", key=key) for w in V[:4]],
                nontrivial=nontrivial and wf, outcome=("wf" if wf else "partly-nwf") + ("/ok" if not V else "/violation"),
                stats=dict(elements_compared=compared, programs=1, not_well_founded_programs=int(not wf)), sample=d)


BFS_PROGRAMS = [
    # programs with once-used (auto-deleted) terms, start values, markers and recursion through products
    (sA, mA, bA, sB, bB)
    for sA in (0, None)
    for mA, bA in ((None, "a2"), (None, "a5"), (None, "a8"), ("antihermitian", "a9"), (None, "a11"), ("hermitian", "a6"))
    for sB in (0, "H_0")
    for bB in ("b3", "b6", "b8", "b4")
]


def bfs_cases(tier):
    return [dict(kind="bfs-program", prog=list(p), depth=2 if tier == "quick" else 3) for p in BFS_PROGRAMS]


def run_bfs_program(case):
    """Every request sequence up to the depth bound over all elements (order <= 1) of one program."""
    from pymablock import algorithm_parsing
    from pymablock.algorithm_parsing import series_computation
    from pymablock.series import BlockSeries, one, zero
    from sympy.physics.quantum import Dagger

    from .. import statespace

    sA, mA, bA, sB, bB = case["prog"]
    sizes, nb, k = [1, 2], 2, 1
    src = render(sA, mA, BODY_A[bA], sB, BODY_B[bB], ("A",))
    Hv, E, off = make_H(nb, k, sizes)

    def is_series(x):
        return isinstance(x, BlockSeries) or getattr(x, "is_series_proxy", False)

    def f(x, index):
        v = x[index] if is_series(x) else x
        if v is zero:
            return zero
        if v is one:
            return 2 * np.eye(sizes[index[0]])
        return 2 * v

    def g(x, y, index):
        a_, b_ = f(x, index), f(y, index)
        if a_ is zero:
            return b_ if b_ is zero else 1.5 * b_
        return a_ if b_ is zero else a_ + 1.5 * b_

    scope = {"f": f, "g": g, "flagT": True, "flagF": False, "flags": [True, False, True, False]}
    ref = Interp(src, {"H": Hv}, scope, nb, k, zero, one, Dagger)
    names = ref.names()
    letters = [(name, (i, j, n)) for name in names for i in range(nb) for j in range(nb) for n in range(2)]
    refval = {}
    for el in letters:
        try:
            refval[el] = ("v", ref.elem(*el))
        except (NotWellFounded, RecursionError):
            refval[el] = ("nwf",)
    func, fname = compile_program(src)

    class W(statespace.World):
        def __init__(self):
            H = BlockSeries(eval=lambda *idx: Hv(idx), shape=(nb, nb), n_infinite=k, name="H")
            self.series, _ = series_computation({"H": H}, algorithm=func, scope=dict(scope))
            super().__init__(list(self.series.values()))

    def request(world, letter):
        name, idx = letter
        try:
            v = world.series[name][idx]
        except RuntimeError:
            world._last = ("exc",)
            return "EXC:RuntimeError"
        world._last = ("v", v)
        return statespace.fingerprint(v)

    def invariant(world, hist, letter, obs):
        r = refval[letter]
        if r[0] == "nwf":
            return []
        if world._last[0] == "exc":
            return [f"{letter[0]}{list(letter[1])} raises RuntimeError although its definition is well-founded"]
        if not same(world._last[1], r[1], zero, one):
            return [f"{letter[0]}{list(letter[1])} differs from the direct interpretation after this history"]
        return []

    try:
        res = statespace.bfs(W, letters, request, invariant, depthcap=case["depth"], validate_cap=60)
    finally:
        linecache.cache.pop(fname, None)
        getattr(algorithm_parsing._parse_algorithm, "cache_clear", lambda: None)()  # memory only; not needed for correctness
    viol = [dict(what=f"{v['what']} [program {case['prog']} history={v['hist']}]", key=None) for v in res["violations"][:4]]
    for h in res["conformance_errors"][:2]:
        viol.append(dict(what=f"snapshot/restore nonconformance {h}", harness_error=True))
    return dict(violations=viol, nontrivial=res["states"] > 10, outcome="bfs-program" + ("/ok" if not viol else "/violation"),
                stats=dict(programs=1, bfs_states=res["states"], bfs_transitions=res["transitions"], elements_compared=res["transitions"]),
                sample=dict(kind="bfs-program", prog=case["prog"], depth=case["depth"], states=res["states"], source=src))


def cases(tier, seed):
    return shipped_cases(tier) + grammar_cases(tier) + bfs_cases(tier)


def run_case(case):
    if case["kind"] == "shipped":
        return run_shipped(case)
    if case["kind"] == "bfs-program":
        return run_bfs_program(case)
    return run_grammar(case)
