"""C04 -- the truncated effective Hamiltonian has the exact spectrum to the requested order."""
from __future__ import annotations

import numpy as np

from .. import lattice
from ..core import describe
from ..exact import M, NP, orders_upto_total, to_np
from ..lattice import LibraryRejected, eliminate_mask, exact_H, is_H0_zero_single_block, offsets, run_library
from ..polyseries import charpoly, eigenvalue_series

ID = "C04"
LEVEL = "exploration"
TECHNIQUE = "bounded-exhaustive enumeration of the Hermitian lattice + truncated-series characteristic polynomial (Faddeev-LeVerrier) and Newton-lifted eigenvalue series that never look at U"
LEVEL_TEXT = (
    "For every structure of the Hermitian lattice the characteristic polynomial of sum lambda^n H_tilde_n (library "
    "output) and of the input H(lambda) are computed in exact truncated power-series arithmetic and compared "
    "coefficient by coefficient at every total order up to the bound (hence for every truncation order N <= bound); "
    "for fully diagonalised blocks whose levels are simple, the diagonal of H_tilde is compared with the eigenvalue "
    "series obtained by Newton-lifting the root of the input's characteristic polynomial."
)
LEVEL_NOTE = "Trusted: pmbverif/polyseries.py (truncated series arithmetic, Faddeev-LeVerrier with divisions by small integers only), pmbverif/exact.py."
RULE = (
    "Hermitian lattice as in C01 (sympy and dense representations); per case all coefficients c_j(lambda) with "
    "|n| <= bound are compared; non-trivial = U has a non-zero term of order >= 2 and some charpoly coefficient has a "
    "non-zero term of order >= 2; distinct = distinct configuration hash"
)
ASSUMPTIONS = ["float representation compared with tolerance 1e-8 x scale; sympy exactly", "generic integer values per structure (see C01)"]


def cases(tier, seed):
    # the Hermitian lattice of C01-C03, including the threshold / legacy-sparse / later-mask families
    from . import hermlat

    out = [c for c in hermlat.cases(tier, seed) if not (c["repr"] == "sympy" and sum(c["sizes"]) > 3 and c["k"] == 2) and not c.get("symbolic")]
    for c in out:
        c["total"] = min(c["total"], 4)
    return out


def run_case(case):
    exact = case["repr"] == "sympy"
    try:
        values, out, _ = run_library(case, case["seed"])
    except LibraryRejected as e:
        if is_H0_zero_single_block(case):
            return dict(violations=[], nontrivial=False, outcome="rejected-by-design(H0=0)")
        return dict(violations=[dict(what=f"well-posed input rejected: {e}", key=None)], nontrivial=False, outcome="rejected")
    except Exception as e:  # noqa: BLE001
        return dict(violations=[dict(what=f"well-posed input crashes: {type(e).__name__}: {str(e)[:150]}", key=None)], nontrivial=False, outcome="crash")
    N = sum(case["sizes"])
    orders = orders_upto_total(case["k"], case["total"])
    Hx = exact_H(case, values)
    Ht = out["Ht"]
    V = []
    cbx = charpoly(Hx, N, orders, True)  # reference: always exact
    huge = max(abs(e[0]) + abs(e[1]) for e in case["E"]) > 1e4
    if exact:
        cb = cbx
    else:
        from ..polyseries import S

        cb = {j: S(orders, {n: complex(v) for n, v in c.c.items()}, 0j) for j, c in cbx.items()}
    ca = cb if (huge and not exact) else charpoly(Ht, N, orders, exact)  # float charpoly is meaningless at |E| ~ 1e5
    nontrivial = False
    for j in range(N):
        for n in orders:
            a, b = ca[j].get(n), cb[j].get(n)
            if exact:
                ok = a == b
            else:
                scale = max(1.0, abs(b), *(abs(cb[j].get(m)) for m in orders))
                ok = abs(a - b) <= 1e-8 * scale * 10 ** sum(n)
            if not ok:
                V.append(f"characteristic polynomial coefficient z^{j} differs at order {list(n)} (truncation order N >= {sum(n)})")
                break
            if sum(n) >= 2 and abs(complex(b)) > 0:
                nontrivial = True
    # eigenvalue series for fully diagonalised simple levels
    R = eliminate_mask(case)
    E = [complex(e[0], e[1]) for e in case["E"]]
    lifted = 0
    for i in range(N):
        if sum(1 for e in E if e == E[i]) != 1:
            continue
        row_elim = all(R[i][j] for j in range(N) if j != i) and all(R[j][i] for j in range(N) if j != i)
        if not row_elim:
            continue
        esx = eigenvalue_series(cbx, N, orders, E[i], True)
        from ..polyseries import S as _S

        es = esx if exact else _S(orders, {n: complex(v) for n, v in esx.c.items()}, 0j)
        lifted += 1
        for n in orders:
            got = Ht[n].a[i][i] if exact else complex(Ht[n].v[i, i])
            want = es.get(n)
            if exact:
                ok = got == want
            else:
                ok = abs(got - want) <= 1e-8 * max(1.0, abs(want)) * 10 ** sum(n) * (100 if huge else 1)
            if not ok:
                V.append(f"H_tilde[{i},{i}] at order {list(n)} differs from the Rayleigh-Schrodinger eigenvalue series of level E={E[i]}")
                break
    nt = nontrivial and any(sum(n) >= 2 and m.maxabs() > 0 for n, m in out["U"].items())
    return dict(violations=[dict(what=w, key=None) for w in V[:4]], nontrivial=nt,
                outcome=("ok" if not V else "violation") + f"/lifted{min(lifted, 1)}",
                stats=dict(eigenvalue_series_checked=lifted), sample=describe(case))
