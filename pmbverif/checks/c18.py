"""C18 -- cauchy_dot_product is the multivariate Cauchy product (with zero/one sentinels)."""
from __future__ import annotations

import itertools

import numpy as np

ID = "C18"
LEVEL = "exploration"
TECHNIQUE = "bounded-exhaustive enumeration of factor counts x block grids x sentinel patterns x parameter counts x request orders against an explicit dense sum over splittings"
LEVEL_TEXT = (
    "Every combination of factor count, (rectangular) block grid, per-factor sentinel pattern, number of parameters, "
    "hermitian flag (on products that are Hermitian by construction) and request order within the bound is run through "
    "the real cauchy_dot_product; every element up to the order bound is compared with the harness's explicit sum "
    "over intermediate blocks and order splittings, and the factors' evaluation logs are checked against the "
    "'request a factor order only if the complementary order is present' clause."
)
LEVEL_NOTE = "Trusted: numpy matmul on small integer matrices (exact in floats), the harness's splitting enumeration."
RULE = (
    "case = (n_factors, grid chain, k, pattern per factor, hermitian flag, request order); all elements (i,j,n) with "
    "|n| <= bound compared; non-trivial = at least one compared element is a non-zero matrix that is a sum of >= 2 "
    "terms; distinct = distinct case"
)
ASSUMPTIONS = ["factor values are small integers (exact float arithmetic), non-zero up to total order 2 and zero beyond"]

PATTERNS = ["dense", "zero0", "one0", "sparse", "first", "one0off"]
GRIDS2 = [((2, 2), (2, 2)), ((1, 2), (2, 2)), ((2, 2), (2, 1)), ((1, 2), (2, 1)), ((3, 3), (3, 3)), ((2, 1), (1, 2))]
GRIDS3 = [((2, 2), (2, 2), (2, 2)), ((1, 2), (2, 2), (2, 1)), ((2, 1), (1, 2), (2, 2))]
GRIDS4 = [((2, 2),) * 4, ((1, 2), (2, 2), (2, 2), (2, 1))]
BS = (1, 2, 1)  # block sizes by block index


def factor_value(tag, pattern, index, k):
    """Model value: None (zero), 'one', or ndarray."""
    i, j, *n = index
    n = tuple(n)
    tot = sum(n)
    if tot > 2:
        return None
    if pattern == "zero0" and tot == 0:
        return None
    if pattern in ("one0", "one0off") and tot == 0:
        if i == j:
            return "one"
        if pattern == "one0":
            return None
    if pattern == "sparse" and (i + j + tot) % 2 == 1:
        return None
    if pattern == "first" and tot != 1:
        return None
    rng = np.random.default_rng([tag, i, j, *n, 31])
    m = rng.integers(-2, 3, (BS[i], BS[j])) + 1j * rng.integers(-2, 3, (BS[i], BS[j]))
    if not np.any(m):
        m[0, 0] = 1
    return m.astype(complex)


def make_factor(tag, pattern, grid, k, log):
    from pymablock.series import BlockSeries, one, zero

    def ev(*index):
        log.append((tag,) + tuple(int(x) for x in index))
        v = factor_value(tag, pattern, index, k)
        if v is None:
            return zero
        if isinstance(v, str):
            return one
        return v

    return BlockSeries(eval=ev, shape=grid, n_infinite=k, name=f"F{tag}")


def adjoint_factor(tag, pattern, grid, k, log):
    """Series whose element (i,j,n) is the adjoint of factor(tag)(j,i,n)."""
    from sympy.physics.quantum import Dagger

    from pymablock.series import BlockSeries, one, zero

    def ev(*index):
        i, j, *n = index
        log.append((f"{tag}†",) + tuple(int(x) for x in index))
        v = factor_value(tag, pattern, (j, i, *n), k)
        if v is None:
            return zero
        if isinstance(v, str):
            return one
        return v.conj().T

    return BlockSeries(eval=ev, shape=(grid[1], grid[0]), n_infinite=k, name=f"F{tag}†")


def model_value(fn, i, j, n):
    return fn(i, j, n)


def splits(n, parts):
    if parts == 1:
        yield (n,)
        return
    for a in itertools.product(*[range(x + 1) for x in n]):
        for rest in splits(tuple(x - y for x, y in zip(n, a)), parts - 1):
            yield (a,) + rest


def reference(models, grids, i, j, n):
    """Explicit sum. models: list of callables (i,j,n)->None|'one'|ndarray. Returns (value, nterms)."""
    total = None
    nterms = 0
    inner = [g[1] for g in grids[:-1]]
    for mids in itertools.product(*[range(d) for d in inner]):
        chain = (i,) + mids + (j,)
        for sp in splits(n, len(models)):
            vals = [models[t](chain[t], chain[t + 1], sp[t]) for t in range(len(models))]
            if any(v is None for v in vals):
                continue
            mats = [v for v in vals if not isinstance(v, str)]
            if mats:
                term = mats[0]
                for m in mats[1:]:
                    term = term @ m
            else:
                term = np.eye(BS[i], dtype=complex)
            total = term if total is None else total + term
            nterms += 1
    return total, nterms


def cases(tier, seed):
    out = []
    pats2 = list(itertools.product(PATTERNS, repeat=2))
    for grids in GRIDS2:
        for k in (1, 2):
            for pats in pats2:
                if any(p.startswith("one0") for p, g in zip(pats, grids) if g[0] != g[1]):
                    continue
                for ro in ("asc", "desc", "lower-first"):
                    out.append(dict(grids=grids, k=k, pats=pats, herm=False, ro=ro, kind="plain"))
    pats3 = list(itertools.product(PATTERNS[:5], repeat=3)) if tier != "quick" else [
        p for p in itertools.product(PATTERNS[:5], repeat=3) if len(set(p)) <= 2 or p[0] == "dense"]
    for grids in GRIDS3:
        for k in (1, 2):
            for pats in pats3:
                if any(p.startswith("one0") for p, g in zip(pats, grids) if g[0] != g[1]):
                    continue
                out.append(dict(grids=grids, k=k, pats=pats, herm=False, ro="asc" if k == 1 else "desc", kind="plain"))
    if tier != "quick":
        for grids in GRIDS4:
            for pats in itertools.product(PATTERNS[:4], repeat=4):
                if any(p.startswith("one0") for p, g in zip(pats, grids) if g[0] != g[1]):
                    continue
                out.append(dict(grids=grids, k=1, pats=pats, herm=False, ro="asc", kind="plain"))
    # Hermitian-by-construction products A†A and A† B A (B Hermitian)
    for grid in ((2, 2), (1, 2), (3, 3), (2, 1)):
        for k in (1, 2):
            for pa in PATTERNS[:5]:
                if pa.startswith("one0") and grid[0] != grid[1]:
                    continue
                for herm in (True, False):
                    for ro in ("asc", "desc", "lower-first"):
                        out.append(dict(grids=(grid,), k=k, pats=(pa,), herm=herm, ro=ro, kind="AdA"))
                        if ro == "asc" and k == 1:
                            # same product with object-dtype blocks holding Python complex numbers
                            out.append(dict(grids=(grid,), k=k, pats=(pa,), herm=herm, ro=ro, kind="AdA", objdtype=True))
                        if grid[0] == grid[1] or True:
                            for pb in ("dense", "one0", "sparse"):
                                out.append(dict(grids=(grid,), k=k, pats=(pa, pb), herm=herm, ro=ro, kind="AdBA"))
    # factors whose absent elements are *declared* (explicit zero in the initial data) instead of discovered by evaluation
    for grids in GRIDS2[:2]:
        for k in (1, 2):
            for pats in itertools.product(("dense", "zero0", "sparse", "first"), repeat=2):
                for ro in ("asc", "desc"):
                    out.append(dict(grids=grids, k=k, pats=pats, herm=False, ro=ro, kind="plain", declared=True))
    out.append(dict(grids=((1, 1), (1, 1)), k=1, pats=("dense", "dense"), herm=False, ro="asc", kind="delay-kernel"))
    # custom element multiplication (element-wise product of equal blocks; scalar blocks with operator.mul)
    for nf in (2, 3, 4):
        for opname in ("np.multiply", "mul-scalars"):
            for pats in itertools.product(("dense", "zero0", "sparse"), repeat=nf):
                if nf == 4 and len(set(pats)) > 2:
                    continue
                out.append(dict(grids=((2, 2),) * nf, k=1, pats=pats, herm=False, ro="asc", kind="custom-op", op=opname))
    for c in out:
        c["grids"] = [list(g) for g in c["grids"]]
        c["pats"] = list(c["pats"])
    return out


def herm_B_value(index, pattern, k):
    """Hermitian middle factor B (square grid of the size of A's row grid)."""
    i, j, *n = index
    if i > j:
        v = herm_B_value((j, i, *n), pattern, k)
        return v if v is None or isinstance(v, str) else v.conj().T
    v = factor_value(77, pattern, index, k)
    if v is None or isinstance(v, str):
        return v
    if i == j:
        v = v + v.conj().T
    return v


def run_custom_op(case):
    """cauchy_dot_product with a user-supplied element multiplication."""
    import operator as _operator

    from pymablock.series import BlockSeries, cauchy_dot_product, zero

    k = 1
    nf = len(case["pats"])
    scalars = case["op"] == "mul-scalars"
    op = _operator.mul if scalars else np.multiply

    def val(tag, pattern, index):
        i, j, n = index
        if n > 2 or (pattern == "zero0" and n == 0) or (pattern == "sparse" and (i + j + n) % 2 == 1):
            return None
        rng = np.random.default_rng([tag, i, j, n, 57])
        if scalars:
            return complex(int(rng.integers(1, 4)), int(rng.integers(-2, 3)))
        return (rng.integers(1, 4, (2, 2)) + 1j * rng.integers(-2, 3, (2, 2))).astype(complex)

    facs = []
    for t, p in enumerate(case["pats"]):
        def ev(*index, t=t, p=p):
            v = val(t + 1, p, tuple(int(x) for x in index))
            return zero if v is None else v

        facs.append(BlockSeries(eval=ev, shape=(2, 2), n_infinite=1, name=f"F{t}"))
    P = cauchy_dot_product(*facs, operator=op)
    V = []
    compared = 0
    nontrivial = False
    for n in range(4):
        for i in range(2):
            for j in range(2):
                want = None
                nterms = 0
                for mids in itertools.product(range(2), repeat=nf - 1):
                    chain = (i,) + mids + (j,)
                    for sp in splits((n,), nf):
                        vals = [val(t + 1, case["pats"][t], (chain[t], chain[t + 1], sp[t][0])) for t in range(nf)]
                        if any(v is None for v in vals):
                            continue
                        term = vals[0]
                        for v in vals[1:]:
                            term = op(term, v)
                        want = term if want is None else want + term
                        nterms += 1
                try:
                    got = P[i, j, n]
                except Exception as e:  # noqa: BLE001
                    V.append(f"element {[i, j, n]} raises {type(e).__name__}: {str(e)[:80]}")
                    continue
                compared += 1
                if want is None:
                    if got is not zero and np.abs(np.asarray(got)).max() > 1e-12:
                        V.append(f"element {[i, j, n]} should be absent")
                elif got is zero or not np.allclose(np.asarray(got), want, atol=1e-9):
                    V.append(f"element {[i, j, n]} differs from the explicit sum with the user-supplied multiplication")
                if nterms >= 2:
                    nontrivial = True
    desc = f"[custom-op {case['op']} factors={nf} pats={case['pats']}]"
    return dict(violations=[dict(what=f"{w} {desc}", key=None) for w in V[:3]], nontrivial=nontrivial,
                outcome="ok" if not V else "violation", stats=dict(elements_compared=compared), sample=case)


def run_delay_kernel(case):
    """A recurrent definition S[n] = c + (S @ B)[n + 2] whose kernel B has its orders 0..2 declared
    absent is well-founded only because a factor order is never requested when its complement is absent."""
    from pymablock.series import BlockSeries, cauchy_dot_product, zero

    B = BlockSeries(data={(0, 0, n): zero for n in range(3)}, eval=lambda i, j, n: np.array([[float(n)]]) if n < 6 else zero,
                    shape=(1, 1), n_infinite=1, name="B")
    S = BlockSeries(shape=(1, 1), n_infinite=1, name="S")
    P = cauchy_dot_product(S, B)
    S.eval = lambda i, j, n: np.array([[1.0]]) + (P[0, 0, n + 2] if P[0, 0, n + 2] is not zero else 0.0)
    V = []
    # reference: S[n] = 1 + sum_{m=3..n+2} S[n+2-m] * m   (B[m] = m for 3 <= m < 6)
    ref = {}
    for n in range(5):
        tot = 1.0
        for m in range(3, n + 3):
            if m < 6:
                tot += ref[n + 2 - m] * m
        ref[n] = tot
    for n in range(5):
        try:
            got = S[0, 0, n]
        except Exception as e:  # noqa: BLE001
            V.append(f"well-founded recurrent definition S[n] = 1 + (S @ B)[n+2] (B[0..2] declared absent) raises {type(e).__name__} at n={n}: {str(e)[:80]}")
            break
        if abs(float(np.asarray(got).ravel()[0]) - ref[n]) > 1e-9:
            V.append(f"recurrent definition: S[{n}] = {got} != {ref[n]}")
    return dict(violations=[dict(what=w, key=None) for w in V[:2]], nontrivial=True, outcome="ok" if not V else "violation",
                stats=dict(elements_compared=5), sample=case)


def run_case(case):
    if case["kind"] == "custom-op":
        return run_custom_op(case)
    if case["kind"] == "delay-kernel":
        return run_delay_kernel(case)
    from pymablock.series import BlockSeries, cauchy_dot_product, one, zero

    k = case["k"]
    grids = [tuple(g) for g in case["grids"]]
    pats = case["pats"]
    log = []
    V = []
    key = None
    if case["kind"] == "plain":
        facs = [make_factor(t + 1, p, g, k, log) for t, (p, g) in enumerate(zip(pats, grids))]
        models = [(lambda i, j, n, t=t: factor_value(t + 1, pats[t], (i, j, *n), k)) for t in range(len(pats))]
        mgrids = grids
    elif case["kind"] == "AdA":
        g = grids[0]
        facs = [adjoint_factor(1, pats[0], g, k, log), make_factor(1, pats[0], g, k, log)]
        mA = lambda i, j, n: factor_value(1, pats[0], (i, j, *n), k)  # noqa: E731

        def mAd(i, j, n):
            v = mA(j, i, n)
            return v if v is None or isinstance(v, str) else v.conj().T

        models = [mAd, mA]
        mgrids = [(g[1], g[0]), g]
    else:  # A† B A
        g = grids[0]

        def bev(*index):
            log.append(("B",) + tuple(int(x) for x in index))
            v = herm_B_value(index, pats[1], k)
            return zero if v is None else (one if isinstance(v, str) else v)

        Bs = BlockSeries(eval=bev, shape=(g[0], g[0]), n_infinite=k, name="B")
        facs = [adjoint_factor(1, pats[0], g, k, log), Bs, make_factor(1, pats[0], g, k, log)]
        mA = lambda i, j, n: factor_value(1, pats[0], (i, j, *n), k)  # noqa: E731

        def mAd(i, j, n):
            v = mA(j, i, n)
            return v if v is None or isinstance(v, str) else v.conj().T

        models = [mAd, (lambda i, j, n: herm_B_value((i, j, *n), pats[1], k)), mA]
        mgrids = [(g[1], g[0]), (g[0], g[0]), g]
    declared = bool(case.get("declared"))
    if declared:
        # re-create the factors with their absent elements declared in the initial data
        bound_d = 3 if k == 1 else 2
        new_facs = []
        for t, f in enumerate(facs):
            data = {}
            for idx_d in itertools.product(range(f.shape[0]), range(f.shape[1]), *[range(bound_d + 3)] * k):
                if models[t](idx_d[0], idx_d[1], tuple(idx_d[2:])) is None:
                    data[idx_d] = zero
            new_facs.append(BlockSeries(eval=f.eval, data=data, shape=f.shape, n_infinite=k, name=f.name))
        facs = new_facs
    if case.get("objdtype"):
        for f in facs:
            inner = f.eval

            def ev_obj(*index, inner=inner):
                v = inner(*index)
                if isinstance(v, np.ndarray):
                    o = np.empty(v.shape, dtype=object)
                    for pos_ in np.ndindex(v.shape):
                        o[pos_] = complex(v[pos_])
                    return o
                return v

            f.eval = ev_obj
    try:
        P = cauchy_dot_product(*facs, hermitian=case["herm"])
    except Exception as e:  # noqa: BLE001
        return dict(violations=[dict(what=f"construction raises {type(e).__name__}: {e} [{case}]", key=None)], nontrivial=False, outcome="crash")
    rows, cols = mgrids[0][0], mgrids[-1][1]
    bound = 3 if k == 1 else 2
    orders = [n for n in itertools.product(range(bound + 1), repeat=k) if sum(n) <= bound]
    idxs = [(i, j) + n for n in orders for i in range(rows) for j in range(cols)]
    if case["ro"] == "desc":
        idxs = idxs[::-1]
    elif case["ro"] == "lower-first":
        idxs = sorted(idxs, key=lambda t: (not t[0] > t[1], t))
    nontrivial = False
    compared = 0
    for idx in idxs:
        i, j, *n = idx
        want, nterms = reference(models, mgrids, i, j, tuple(n))
        mark = len(log)
        try:
            got = P[idx]
        except Exception as e:  # noqa: BLE001
            msg = f"{type(e).__name__}: {str(e)[:100]}"
            if isinstance(e, TypeError) and "'One'" in str(e) and "unsupported operand" in str(e) and "one0off" in pats:
                key = "K2"
            V.append(f"element {list(idx)} raises {msg}")
            continue
        compared += 1
        if got is zero:
            gotm = None
        elif got is one:
            gotm = np.eye(BS[i], dtype=complex)
        else:
            gotm = np.asarray(got, dtype=complex)
        if want is None:
            if gotm is not None and np.abs(gotm).max() > 1e-12:
                V.append(f"element {list(idx)} should be absent/zero, got a non-zero value")
        else:
            if gotm is None:
                if np.abs(want).max() > 1e-12:
                    V.append(f"element {list(idx)} is the zero sentinel but the sum over splittings is non-zero")
            elif gotm.shape != want.shape or not np.allclose(gotm, want, atol=1e-9):
                V.append(f"element {list(idx)} differs from the explicit sum over intermediate blocks and splittings")
            if nterms >= 2 and np.abs(want).max() > 0:
                nontrivial = True
        # causality clause for two-factor products
        if len(facs) == 2 and case["kind"] == "plain":
            cost = lambda o: int(np.prod([(x + 1) ** 2 for x in o]))  # noqa: E731
            for entry in log[mark:]:
                tag, a_i, a_j, *a_n = entry
                a_n = tuple(a_n)
                comp = tuple(x - y for x, y in zip(n, a_n))
                if any(c < 0 for c in comp):
                    V.append(f"request {list(idx)} evaluated factor {tag} at order {a_n} beyond the requested order")
                    continue
                if tag == 1:
                    other = models[1](a_j, j, comp)
                    first_eval = cost(a_n) <= cost(comp)
                else:
                    other = models[0](i, a_i, comp)
                    first_eval = cost(a_n) < cost(comp)
                if other is None and (declared or not first_eval):
                    V.append(f"request {list(idx)}: factor {tag} evaluated at {entry[1:]} although the complementary order {comp} of the other factor is absent")
    # the factors' cached values must be untouched by the product evaluation
    for t, (f, model) in enumerate(zip(facs, models)):
        for idx_f, v in list(f._data.items()):
            want_f = model(idx_f[0], idx_f[1], tuple(idx_f[2:]))
            if v is zero or v is one or want_f is None or isinstance(want_f, str):
                if (v is zero) != (want_f is None) or (v is one) != isinstance(want_f, str):
                    V.append(f"cached element {list(idx_f)} of factor {t} changed its sentinel during product evaluation")
                continue
            if not np.array_equal(np.asarray(v, dtype=complex), want_f):
                V.append(f"cached element {list(idx_f)} of factor {t} was modified by the product evaluation")
    desc = f"[{case['kind']} grids={grids} k={k} pats={pats} hermitian={case['herm']} order={case['ro']}]"
    return dict(violations=[dict(what=f"{w} {desc}", key=key) for w in V[:3]], nontrivial=nontrivial,
                outcome="ok" if not V else ("K2" if key else "violation"), stats=dict(elements_compared=compared), sample=case)
