"""C08 -- NumberOrderedForm arithmetic faithfully represents the operator algebra."""
from __future__ import annotations

import itertools

import numpy as np

from ..fockmodel import Space, expr_shifts, sorted_modes

ID = "C08"
LEVEL = "exploration"
TECHNIQUE = "bounded-exhaustive enumeration of operator words, single-term form pairs/triples and expression shapes, against an independent Fock-space / Jordan-Wigner / shift-lattice matrix model compared away from truncation edges"
LEVEL_TEXT = (
    "Every operator word up to the length bound over a 14-letter alphabet (bosons, fermions, spin, ladder, number "
    "operators; left- and right-associated products; conversion of the whole word by from_expr), every ordered pair "
    "(thorough: triple) of single-term forms over the stated power and coefficient alphabets for ten mode sets, and a "
    "fixed family of sums, differences, powers, adjoints and round trips are computed with the real NumberOrderedForm "
    "and evaluated in an independent matrix representation of the (anti)commutation relations; results are compared on "
    "all Fock states far enough from the truncation edge."
)
LEVEL_NOTE = "Trusted: pmbverif/fockmodel.py (matrices built from the commutation relations), numpy; a form is evaluated from its term table (creation x f(N) x annihilation in reverse order)."
RULE = (
    "case = chunk of words / term pairs / expression family for one mode set; non-trivial = the product is a non-zero "
    "operator and reordering was needed (some mode carries an annihilator on the left factor and a creator or "
    "number-dependent coefficient on the right); distinct = distinct word/pair (counted in stats)"
)
ASSUMPTIONS = [
    "coefficient functions are pole-free on the integers (1, N, N^2+1, 1/(2N+5))",
    "boson/ladder truncation D is chosen per case so that all compared states stay inside the window",
]


def mk_ops():
    from sympy.physics.quantum import pauli
    from sympy.physics.quantum.boson import BosonOp
    from sympy.physics.quantum.fermion import FermionOp

    from pymablock.number_ordered_form import LadderOp

    return dict(a=BosonOp("a"), b=BosonOp("b"), c=FermionOp("c"), d=FermionOp("d"), e=FermionOp("e"),
                s=pauli.SigmaMinus("s"), l=LadderOp("l"),
                # operators of another species that share the *name* of a boson / ladder mode
                A=FermionOp("a"), L=pauli.SigmaMinus("l"))


MODESETS = [("a",), ("l",), ("s",), ("c",), ("a", "b"), ("c", "d"), ("c", "d", "e"), ("a", "c"), ("s", "c"), ("a", "l", "s", "c"),
            ("a", "A"), ("l", "L")]
LETTERS = ["a", "a+", "Na", "c", "c+", "d", "d+", "e", "e+", "s", "s+", "l", "l+", "Nl"]


def letter_expr(ops, L):
    from sympy.physics.quantum import Dagger

    from pymablock.number_ordered_form import NumberOperator

    if L.startswith("N"):
        return NumberOperator(ops[L[1]])
    if L.endswith("+"):
        return Dagger(ops[L[0]])
    return ops[L]


def cases(tier, seed):
    out = []
    qk = tier == "quick"
    # (ii) operator words
    maxlen = 3 if qk else 4
    for n in range(1, maxlen + 1):
        words = list(itertools.product(LETTERS, repeat=n))
        if n == 4:
            # length 4: words over the fermion/boson sub-alphabet (the full alphabet has 38 416 words)
            sub = ["a", "a+", "Na", "c", "c+", "d", "d+", "e+", "s+", "l"]
            words = list(itertools.product(sub, repeat=4))
        for i in range(0, len(words), 150):
            out.append(dict(kind="words", words=["|".join(w) for w in words[i : i + 150]]))
    # (i) single-term form pairs
    for ms in MODESETS:
        terms = single_terms(ms, qk)
        case_quick = qk
        pairs = list(itertools.product(range(len(terms)), repeat=2))
        for i in range(0, len(pairs), 400):
            out.append(dict(kind="pairs", modes=list(ms), pairs=pairs[i : i + 400], quick=qk))
        if not qk and len(ms) <= 2:
            small = [t for t in range(len(terms)) if t % 3 == 0][:12]
            triples = list(itertools.product(small, repeat=3))
            for i in range(0, len(triples), 300):
                out.append(dict(kind="triples", modes=list(ms), triples=triples[i : i + 300]))
    # (iii) expression families
    for ms in MODESETS:
        out.append(dict(kind="family", modes=list(ms)))
    # (iv) functions, negative and fractional powers of number-conserving expressions written in equivalent ways
    for mode in ("a", "l", "c", "s"):
        out.append(dict(kind="functions", mode=mode))
    return out


def single_terms(ms, quick):
    """(powers, coefficient-id) alphabet of one mode set."""
    rng_inf = (-2, -1, 0, 1, 2) if len(ms) <= 2 else (-1, 0, 1)
    per = []
    for m in ms:
        per.append(rng_inf if m in "abl" else (-1, 0, 1))
    coeffs = [0, 1, 2, 3] if len(ms) <= 2 else [0, 1]
    if quick and len(ms) > 3:
        coeffs = [1]
    if quick and len(ms) == 2 and all(m in "abl" for m in ms):
        coeffs = [0, 1, 3]
    terms = []
    for pw in itertools.product(*per):
        for c in coeffs:
            terms.append((pw, c))
    return terms


def coeff_expr(cid, nof_cls, modes_sorted, NumberOperator):
    import sympy

    N = NumberOperator(modes_sorted[0])
    if cid == 0:
        return sympy.Integer(1)
    if cid == 1:
        return N + (NumberOperator(modes_sorted[-1]) if len(modes_sorted) > 1 else 0)
    if cid == 2:
        return N**2 + 1
    return 1 / (2 * N + 5)


def build_term(ops_sorted, pw, cid):
    """The single-term operator  prod_i (a_i^dagger)^{q_i} . f(N) . prod_i(reversed) a_i^{p_i}
    as a plain sympy expression and its NumberOrderedForm (converted by the library)."""
    import sympy
    from sympy.physics.quantum import Dagger

    from pymablock.number_ordered_form import NumberOperator, NumberOrderedForm

    c = coeff_expr(cid, NumberOrderedForm, ops_sorted, NumberOperator)
    factors = []
    for op, p in zip(ops_sorted, pw):
        if p < 0:
            factors.append(Dagger(op) ** int(-p))
    if c != 1:
        factors.append(c)
    for op, p in reversed(list(zip(ops_sorted, pw))):
        if p > 0:
            factors.append(op ** int(p))
    expr = sympy.Mul(*factors) if factors else sympy.Integer(1)
    return NumberOrderedForm.from_expr(expr, ops_sorted), expr


def needD(*nofs_shifts):
    tot = 0
    for down, up in nofs_shifts:
        tot += max(max(down, default=0), max(up, default=0))
    return max(5, 2 * tot + 3)


def cmp_on_interior(space, got, want, down, up):
    idx = space.interior(down, up)
    if idx.size == 0:
        return None
    g = got[:, idx]
    w = want[:, idx]
    if not np.isfinite(g).all():
        return "non-finite matrix elements"
    d = np.abs(g - w).max()
    if d > 1e-8 * max(1.0, np.abs(w).max()):
        return f"differs from the matrix model by {d:.3g}"
    return None


def add_shifts(*shifts):
    down = [sum(s[0][i] for s in shifts) for i in range(len(shifts[0][0]))]
    up = [sum(s[1][i] for s in shifts) for i in range(len(shifts[0][0]))]
    return down, up


def run_case(case):
    fn = globals()["run_" + case["kind"]]
    try:
        V, stats, nt = fn(case)
    except Exception as e:  # noqa: BLE001
        import traceback

        V, stats, nt = [f"raises {type(e).__name__}: {str(e)[:150]} @ {traceback.format_exc().strip().splitlines()[-2][:100]}"], {}, True
    sample = {k: (v[:2] if isinstance(v, list) and k in ("words", "pairs", "triples") else v) for k, v in case.items()}
    return dict(violations=[dict(what=w, key=None) for w in V[:4]], nontrivial=nt,
                outcome="ok" if not V else "violation", stats=stats, sample=sample)


def run_functions(case):
    """f(z) for z a number-conserving expression: the conversion either refuses (ValueError) or denotes f(z)."""
    import sympy
    from sympy.physics.quantum import Dagger

    from pymablock.number_ordered_form import NumberOperator, NumberOrderedForm

    ops = mk_ops()
    x0 = ops[case["mode"]]
    N0 = NumberOperator(x0)
    R = sympy.Rational
    xq = (x0 + Dagger(x0)) / sympy.sqrt(2)
    pq = sympy.I * (Dagger(x0) - x0) / sympy.sqrt(2)
    alpha = R(3, 2)
    arguments = {
        "N": N0,
        "x x+": x0 * Dagger(x0),
        "x+ x + x x+": Dagger(x0) * x0 + x0 * Dagger(x0),
        "q^2 + p^2": xq**2 + pq**2,
        "(q^2 + p^2)/2 + 1": (xq**2 + pq**2) / 2 + 1,
        "displaced": (Dagger(x0) + alpha) * (x0 + alpha) - alpha * (x0 + Dagger(x0)),
        "N^2 + x+ x": N0**2 + Dagger(x0) * x0,
    }
    functions = {
        "exp(-z/4)": lambda z: sympy.exp(-z / 4),
        "cos(z/3)": lambda z: sympy.cos(z / 3),
        "1/(z+1)": lambda z: 1 / (z + 1),
        "sqrt(z+2)": lambda z: sympy.sqrt(z + 2),
        "(z+1)**-2": lambda z: (z + 1) ** -2,
        # number operators in an exponent
        "pow: 2**(-z)": lambda z: 2 ** (-z),
        "pow: x 2**(-z) x+": lambda z: x0 * 2 ** (-z) * Dagger(x0),
        "pow: (3/2)**(-z/2) x + h.c.": lambda z: R(3, 2) ** (-z / 2) * x0 + Dagger(x0) * R(3, 2) ** (-z / 2),
        # sign-sensitive functions (the number operator of a ladder mode takes negative values)
        "abs: (z**2)**(1/2)": lambda z: sympy.sqrt(z**2),
        "abs: Abs(z - 2)": lambda z: sympy.Abs(z - 2),
        "abs: x (1 + (z**2)**(1/2)) x+ + h.c.": lambda z: x0 * (1 + sympy.sqrt(z**2)) * Dagger(x0) + Dagger(x0) * (1 + sympy.sqrt(z**2)) * x0,
        "abs: ((z - 1)**2)**(1/2) x + h.c.": lambda z: sympy.sqrt((z - 1) ** 2) * x0 + Dagger(x0) * sympy.sqrt((z - 1) ** 2),
        "x exp(-z/4) x+": lambda z: x0 * sympy.exp(-z / 4) * Dagger(x0),
        "exp(-z/4) x + h.c.": lambda z: sympy.exp(-z / 4) * x0 + Dagger(x0) * sympy.exp(-z / 4),
    }
    sp = Space([x0], D=14)
    V = []
    n = refused = 0
    for an, z in arguments.items():
        for fn, f in functions.items():
            if case["mode"] == "l" and fn.startswith("sqrt"):
                continue  # ladder levels are negative too: the real square root of the numeric model is undefined there
            try:
                expr = f(z)  # sympy itself cannot build some functions of operator products (it recurses)
                want = sp.expr_matrix(expr)
            except (ValueError, TypeError, RecursionError):
                continue
            if not np.isfinite(want[:, sp.interior([3], [3])]).all():
                continue  # the function has a pole on this mode's spectrum (ladder levels extend to negative integers)
            try:
                nof = NumberOrderedForm.from_expr(expr)
            except ValueError:
                refused += 1
                continue
            n += 1
            with np.errstate(all="ignore"):
                msg = cmp_on_interior(sp, sp.nof_matrix(nof), want, [3], [3])
            if msg:
                V.append(f"mode {case['mode']}: {fn} with z = {an} converts to {str(nof)[:80]}, which {msg}")
    return V, dict(products_checked=n, refused=refused), n > 0


def run_words(case):
    from pymablock.number_ordered_form import NumberOrderedForm

    ops = mk_ops()
    V = []
    n = 0
    reordered = 0
    for wstr in case["words"]:
        word = wstr.split("|")
        used = sorted({L[1] if L.startswith("N") else L[0] for L in word})
        modes = sorted_modes([ops[u] for u in used])
        D = 2 * len(word) + 3
        sp = Space(modes, D=D)
        exprs = [letter_expr(ops, L) for L in word]
        mats = [sp.expr_matrix(x) for x in exprs]
        want = mats[0]
        for m in mats[1:]:
            want = want @ m
        nofs = [NumberOrderedForm.from_expr(x, modes) for x in exprs]
        shift = add_shifts(*[sp.shifts_of(x) for x in nofs])
        # left-associated, right-associated, and conversion of the whole product
        left = nofs[0]
        for x in nofs[1:]:
            left = left * x
        right = nofs[-1]
        for x in reversed(nofs[:-1]):
            right = x * right
        prod = exprs[0]
        for x in exprs[1:]:
            prod = prod * x
        variants = [("left-associated product", left), ("right-associated product", right)]
        try:
            variants.append(("from_expr of the product", NumberOrderedForm.from_expr(prod, modes) if prod != 0 else None))
        except Exception as e:  # noqa: BLE001
            V.append(f"word {' '.join(word)}: from_expr raises {type(e).__name__}: {str(e)[:80]}")
        for label, res in variants:
            n += 1
            if res is None:
                got = np.zeros_like(want)
            else:
                got = sp.nof_matrix(res)
            msg = cmp_on_interior(sp, got, want, *shift)
            if msg:
                V.append(f"word {' '.join(word)}: {label} {msg}")
        if len(word) > 1:
            reordered += 1
        # adjoint reverses products
        adj = left.adjoint()
        msg = cmp_on_interior(sp, sp.nof_matrix(adj), want.conj().T, shift[1], shift[0])
        n += 1
        if msg:
            V.append(f"word {' '.join(word)}: adjoint of the product {msg}")
    return V, dict(products_checked=n, words=len(case["words"])), reordered > 0


def run_pairs(case):
    ops = mk_ops()
    ms = case["modes"]
    modes = sorted_modes([ops[m] for m in ms])
    # keep the alphabet in the library's mode order
    order = [modes.index(ops[m]) for m in ms]
    terms = single_terms(tuple(ms), case.get("quick", False))
    V = []
    n = 0
    nt = False
    cache = {}
    for i, j in case["pairs"]:
        (pa, ca), (pb, cb) = terms[i], terms[j]
        pa2 = tuple(pa[ms.index(str_of(op, ops))] for op in modes)
        pb2 = tuple(pb[ms.index(str_of(op, ops))] for op in modes)
        X, ex = build_term(modes, pa2, ca)
        Y, ey = build_term(modes, pb2, cb)
        D = max(map(abs, pa2)) + max(map(abs, pb2)) + 4
        sp = cache.get(D) or cache.setdefault(D, Space(modes, D=D))
        sx, sy = shifts_from_powers(pa2), shifts_from_powers(pb2)
        mx, my = sp.expr_matrix(ex), sp.expr_matrix(ey)
        for lab, F, m, sh in (("X", X, mx, sx), ("Y", Y, my, sy)):
            msg = cmp_on_interior(sp, sp.nof_matrix(F), m, *sh)
            if msg:
                V.append(f"modes {ms}: from_expr of single term (powers={pa2 if lab == 'X' else pb2}, coeff#{ca if lab == 'X' else cb}) {msg}")
        want = mx @ my
        Z = X * Y
        msg = cmp_on_interior(sp, sp.nof_matrix(Z), want, *add_shifts(sx, sy))
        n += 1
        if msg:
            V.append(f"modes {ms}: term(powers={pa2}, coeff#{ca}) * term(powers={pb2}, coeff#{cb}) {msg}")
        if any(a > 0 and (b < 0 or cb) for a, b in zip(pa2, pb2)):
            nt = True
        # sum and difference
        if (i + j) % 7 == 0:
            for label, W, wm in (("sum", X + Y, mx + my), ("difference", X - Y, mx - my)):
                sh = ([max(a, b) for a, b in zip(sx[0], sy[0])], [max(a, b) for a, b in zip(sx[1], sy[1])])
                msg = cmp_on_interior(sp, sp.nof_matrix(W), wm, *sh)
                n += 1
                if msg:
                    V.append(f"modes {ms}: {label} of term({pa2},#{ca}) and term({pb2},#{cb}) {msg}")
    return V, dict(products_checked=n), nt


def shifts_from_powers(pw):
    return [max(int(p), 0) for p in pw], [max(int(-p), 0) for p in pw]


def str_of(op, ops):
    for k, v in ops.items():
        if v == op:
            return k
    raise KeyError(op)


def run_triples(case):
    ops = mk_ops()
    ms = case["modes"]
    modes = sorted_modes([ops[m] for m in ms])
    terms = single_terms(tuple(ms), False)
    V = []
    n = 0
    cache = {}
    for i, j, k in case["triples"]:
        T = []
        for t in (i, j, k):
            pw, c = terms[t]
            pw2 = tuple(pw[ms.index(str_of(op, ops))] for op in modes)
            T.append(build_term(modes, pw2, c) + (pw2,))
        D = sum(max(abs(int(p)) for p in t[2]) for t in T) + 4
        sp = cache.get(D) or cache.setdefault(D, Space(modes, D=D))
        mats = [sp.expr_matrix(t[1]) for t in T]
        want = mats[0] @ mats[1] @ mats[2]
        sh = add_shifts(*[shifts_from_powers(t[2]) for t in T])
        T = [t[0] for t in T]
        for label, res in (("(xy)z", (T[0] * T[1]) * T[2]), ("x(yz)", T[0] * (T[1] * T[2]))):
            msg = cmp_on_interior(sp, sp.nof_matrix(res), want, *sh)
            n += 1
            if msg:
                V.append(f"modes {ms}: triple {i},{j},{k} {label} {msg}")
        # distributivity x(y+z) = xy + xz
        res = T[0] * (T[1] + T[2])
        wantd = mats[0] @ (mats[1] + mats[2])
        msg = cmp_on_interior(sp, sp.nof_matrix(res), wantd, *sh)
        n += 1
        if msg:
            V.append(f"modes {ms}: triple {i},{j},{k} x(y+z) {msg}")
    return V, dict(products_checked=n), True


def run_family(case):
    """Sums, differences, integer powers, adjoints, scalar multiples, round trips."""
    import sympy
    from sympy.physics.quantum import Dagger

    from pymablock.number_ordered_form import NumberOperator, NumberOrderedForm

    ops = mk_ops()
    ms = case["modes"]
    modes = sorted_modes([ops[m] for m in ms])
    x0 = ops[ms[0]]
    x1 = ops[ms[-1]]
    N0 = NumberOperator(x0)
    tsym, usym = sympy.Symbol("t"), sympy.Symbol("u")
    base = [
        x0 + Dagger(x0),
        x0 * Dagger(x1) + Dagger(x0) * x1 if len(ms) > 1 else x0 * Dagger(x0),
        Dagger(x0) * x0 + 2,
        (N0 + 1) * x0 + Dagger(x1) * sympy.Rational(1, 2),
        sympy.I * x0 - sympy.I * Dagger(x0) + N0,
        Dagger(x1) * x0 * x1 if len(ms) > 1 else Dagger(x0) * x0 * x0,
        # coefficients with complex *symbols* (not declared real) and functions of number operators
        tsym * x0 + sympy.conjugate(tsym) * Dagger(x0),
        tsym * Dagger(x1) * (N0 + 1) + usym * x0,
        (Dagger(x0) * N0) if ms[0] in "abl" else Dagger(x0) * x1,
        x0**2 * Dagger(x1) + x1 * Dagger(x0) ** 2,
        Dagger(x0) ** 3 + x0**3 + N0**2,
    ]
    from sympy.physics.quantum import pauli as _pauli

    spins = [ops[m] for m in ms if isinstance(ops[m], _pauli.SigmaMinus)]
    if spins:
        # Pauli matrices of the spin mode (looked up through its lowering operator), alone and next to other modes
        nm_ = spins[0].name
        sx, sy, sz = _pauli.SigmaX(nm_), _pauli.SigmaY(nm_), _pauli.SigmaZ(nm_)
        other = x0 if x0 != spins[0] else x1
        base += [sx + 2 * sy * sz, sx * (other + Dagger(other)) + sy, sz * Dagger(other) * other + sx * sy]
    V = []
    n = 0
    sp = Space(modes, D=15 if len(ms) <= 2 else 9)
    sp.subs = {tsym: sympy.Rational(3, 10) + sympy.I * sympy.Rational(7, 10), usym: sympy.Rational(-1, 2) + sympy.I / 3}

    def check(label, nof, want, down, up):
        nonlocal n
        n += 1
        if not isinstance(nof, NumberOrderedForm):
            # reflected operations without a dedicated method give a plain sympy expression containing the form
            nof = NumberOrderedForm.from_expr(sympy.sympify(nof).doit(), modes)
        msg = cmp_on_interior(sp, sp.nof_matrix(nof), want, down, up)
        if msg:
            V.append(f"modes {ms}: {label} {msg}")

    nm = len(modes)
    for i, e in enumerate(base):
        X = NumberOrderedForm.from_expr(e, modes)
        mx = sp.expr_matrix(e)
        dx, ux = expr_shifts(sp, e)
        check(f"from_expr({e})", X, mx, dx, ux)
        check(f"adjoint of {e}", X.adjoint(), mx.conj().T, ux, dx)
        check(f"-({e})", -X, -mx, dx, ux)
        check(f"({e}) * (2 - I)", X * (2 - sympy.I), mx * (2 - 1j), dx, ux)
        check(f"(2 - I) * ({e})", (2 - sympy.I) * X, mx * (2 - 1j), dx, ux)
        check(f"({e}) / 3", X / 3, mx / 3, dx, ux)
        # division by an invertible function of number operators is right multiplication by its inverse; the divisor
        # is given with the full operator list, with its own (smaller) list, and on two modes
        N1 = NumberOperator(x1)
        divisors = [("2*N0 + 5", 2 * N0 + 5, modes), ("2*N0 + 3 [own operators]", 2 * N0 + 3, None)]  # odd: no integer root (ladder modes)
        if len(ms) > 1:
            divisors += [("2*N0 + 2*N1 + 1", 2 * N0 + 2 * N1 + 1, modes), ("4*N1 + 3 [own operators]", 4 * N1 + 3, None), ("2*N0 + 4*N1 + 1 [own operators]", 2 * N0 + 4 * N1 + 1, None)]
        for dl, de, dm_ in divisors:
            Dn = NumberOrderedForm.from_expr(de, dm_) if dm_ is not None else NumberOrderedForm.from_expr(de)
            mD = sp.expr_matrix(de)
            invD = np.diag(1 / np.diag(mD))
            check(f"({e}) / ({dl})", X / Dn, mx @ invD, dx, ux)
            check(f"(({e}) / ({dl})) * ({dl})", (X / Dn) * Dn, mx, dx, ux)
        check(f"({e}) * 2 (Python int)", X * 2, mx * 2, dx, ux)
        check(f"({e}) * 0.5 (Python float)", X * 0.5, mx * 0.5, dx, ux)
        check(f"2 * ({e}) (Python int)", 2 * X, mx * 2, dx, ux)
        for p in (2, 3):
            check(f"({e})**{p}", X**p, np.linalg.matrix_power(mx, p), [d * p for d in dx], [u * p for u in ux])
        back = X.as_expr()
        check(f"from_expr(as_expr({e}))", NumberOrderedForm.from_expr(back, modes), mx, dx, ux)
        check(f"model of as_expr({e})", X, sp.expr_matrix(back), dx, ux)
        # the same expression converted with its own (auto-detected, possibly smaller) operator list
        Xa = NumberOrderedForm.from_expr(e)
        check(f"from_expr({e}) with auto-detected operators", Xa, mx, dx, ux)
        # reflected operations with plain numbers and plain operator expressions, doit / simplify / applyfunc / subs
        check(f"3 + ({e})", 3 + X, 3 * np.eye(sp.dim) + mx, dx, ux)
        check(f"({e}) - 3", X - 3, mx - 3 * np.eye(sp.dim), dx, ux)
        check(f"(I/2) - ({e})", sympy.I / 2 - X, 0.5j * np.eye(sp.dim) - mx, dx, ux)
        check(f"({e}).doit()", NumberOrderedForm.from_expr(X.doit(), modes), mx, dx, ux)
        check(f"simplify({e})", X.simplify(), mx, dx, ux)
        check(f"({e}).applyfunc(expand)", X.applyfunc(sympy.expand), mx, dx, ux)
        check(f"({e}).applyfunc(c -> 2c)", X.applyfunc(lambda c: 2 * c), 2 * mx, dx, ux)
        if X.free_symbols & {tsym, usym}:
            sub = {tsym: sympy.Rational(2, 3), usym: sympy.Rational(1, 4) - sympy.I}
            old_subs, sp.subs = sp.subs, sub
            try:
                check(f"({e}).subs(numbers)", X.subs(sub), sp.expr_matrix(e), dx, ux)
            finally:
                sp.subs = old_subs
        # predicates (on non-zero operators: a vanishing form may keep zero-coefficient terms, which is a matter of
        # representation and not of the operator it denotes)
        nonzero = np.abs(mx).max() >= 1e-12
        n += 1
        idx_ = sp.interior(dx, ux)
        offd = mx[:, idx_].copy()
        offd[idx_, np.arange(idx_.size)] = 0
        conserving = bool(np.abs(offd).max(initial=0) < 1e-12)  # diagonal in the occupation-number basis
        if nonzero and bool(X.is_particle_conserving()) != conserving:
            V.append(f"modes {ms}: is_particle_conserving({e}) is {X.is_particle_conserving()}")
        n += 1
        diff0 = X - NumberOrderedForm.from_expr(back, modes)
        if diff0.is_zero is False or np.abs(sp.nof_matrix(diff0)).max() > 1e-9:
            V.append(f"modes {ms}: ({e}) - from_expr(as_expr(.)) is not zero: {diff0}")
        n += 1
        # `==` is structural (coefficients are not simplified first), so only its sound direction is checked
        if nonzero and ((X == X + 1) is True or (X == X) is False):
            V.append(f"modes {ms}: == is inconsistent for {e}")
        for j, e2 in enumerate(base):
            if j <= i:
                continue
            Y = NumberOrderedForm.from_expr(e2, modes)
            my = sp.expr_matrix(e2)
            dy, uy = expr_shifts(sp, e2)
            dm, um = [max(a, b) for a, b in zip(dx, dy)], [max(a, b) for a, b in zip(ux, uy)]
            ds, us = [a + b for a, b in zip(dx, dy)], [a + b for a, b in zip(ux, uy)]
            check(f"({e}) + ({e2})", X + Y, mx + my, dm, um)
            check(f"({e}) - ({e2})", X - Y, mx - my, dm, um)
            check(f"({e}) * ({e2})", X * Y, mx @ my, ds, us)
            check(f"adjoint(({e}) * ({e2}))", (X * Y).adjoint(), my.conj().T @ mx.conj().T, us, ds)
            check(f"({e}) * plain expression ({e2})", X * e2, mx @ my, ds, us)
            check(f"plain expression ({e}) * ({e2})", e * Y, mx @ my, ds, us)
            check(f"plain expression ({e}) + ({e2})", e + Y, mx + my, dm, um)
            check(f"({e}) - plain expression ({e2})", X - e2, mx - my, dm, um)
            Ya = NumberOrderedForm.from_expr(e2)  # operator lists of the two factors may differ
            check(f"({e}) * ({e2}) with separately detected operators", Xa * Ya, mx @ my, ds, us)
            check(f"({e}) + ({e2}) with separately detected operators", Xa + Ya, mx + my, dm, um)
            check(f"(({e}) + ({e2}))**2", (X + Y) ** 2, (mx + my) @ (mx + my), [2 * v for v in dm], [2 * v for v in um])
            check(f"commutator [{e}, {e2}]", X * Y - Y * X, mx @ my - my @ mx, ds, us)
    return V, dict(products_checked=n), True
