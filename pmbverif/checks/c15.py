"""C15 -- covariance under relabelling, degenerate rotation, shift, conjugation, scaling, direct sums."""
from __future__ import annotations

import itertools
from fractions import Fraction

import numpy as np

from .. import lattice
from ..core import describe
from ..exact import M, NP, Q, orders_upto_total, q
from ..lattice import LibraryRejected, close, is_H0_zero_single_block, offsets, run_library_values

ID = "C15"
LEVEL = "exploration"
TECHNIQUE = "bounded-exhaustive enumeration of lattice configurations x symmetry transformations (all block relabellings, all state permutations, fixed exact unitaries inside every degenerate level, conjugation, shifts, scalings, direct sums) with library-vs-library comparison"
LEVEL_TEXT = (
    "For every structure of the lattice (Hermitian and non-Hermitian, full and selective diagonalisation) the library "
    "is run on the original Hamiltonian and on every transformed one; the three outputs must be the correspondingly "
    "permuted / rotated / conjugated / shifted / scaled / direct-summed series at every order in the bound."
)
LEVEL_NOTE = "Trusted: the harness's bookkeeping of the expected transformation on full matrices in state order; values themselves are tied to the independent reference by C03/C05."
RULE = (
    "case = lattice structure x representation; transformations: every permutation of block labels, every "
    "permutation of basis states (N<=3; generators + 6 fixed ones for N=4), a real and a complex exact unitary in "
    "every degenerate level, complex conjugation, shifts {-3, 1/2, 10, 1000}, scalings {2, 1/4}, direct sum with a "
    "second fixed configuration (separate blocks and merged blocks); non-trivial as in C01"
)
ASSUMPTIONS = ["generic integer values per structure", "shifts keep gap/|E| >= 1e-3 > 1e-5", "float tolerance 1e-9 x scale (x |shift| for shifted runs)"]


def cases(tier, seed):
    qk = tier == "quick"
    out = []
    i = 0
    for herm in (True, False):
        for st in lattice.structures(3 if qk else 4, hermitian=herm, ks=(1,), patterns=("dense",) if qk else ("dense", "offdiag", "arrow"),
                                     supports={1: [[(1,)], [(1,), (2,)]]}):
            N = sum(st["sizes"])
            rep = ("sympy", "dense", "csr")[i % 3] if N <= 3 else ("dense", "csr")[i % 2]
            i += 1
            out.append(dict(st, repr=rep, vset=0, total=3 if qk else 4, seed=seed))
        for st in lattice.mask_structures(3, hermitian=herm):
            out.append(dict(st, repr=("sympy", "dense")[i % 2], vset=0, total=3, seed=seed))
            i += 1
    return out


def perm_matrix(pi, N):
    P = np.zeros((N, N))
    for a in range(N):
        P[pi[a], a] = 1
    return P


def transform_cfg_perm(case, pi, sigma):
    """States a -> pi[a]; block labels b -> sigma[b]."""
    base_idx = lattice.block_of(case["sizes"])
    N = len(base_idx)
    idx = [None] * N
    E = [None] * N
    for a in range(N):
        idx[pi[a]] = sigma[base_idx[a]]
        E[pi[a]] = case["E"][a]
    cfg = dict(case, indices=idx, E=E)
    if case.get("fd"):
        cfg["fd"] = sorted(sigma[b] for b in case["fd"])
    if case.get("mask"):
        newmask = {}
        off = offsets(case["sizes"])
        for b, m in case["mask"].items():
            b = int(b)
            states = list(range(off[b], off[b + 1]))
            newpos = sorted(pi[a] for a in states)
            s = len(states)
            mm = [[0] * s for _ in range(s)]
            for r, a in enumerate(states):
                for c, a2 in enumerate(states):
                    mm[newpos.index(pi[a])][newpos.index(pi[a2])] = m[r][c]
            newmask[str(sigma[b])] = mm
        cfg["mask"] = newmask
    return cfg


def run(cfg, values, total):
    _, out, _ = run_library_values(dict(cfg, total=total), values)
    return out


def run_case(case):
    exact = case["repr"] == "sympy"
    total = case["total"]
    herm = case["hermitian"]
    values = lattice.gen_values(case, case["seed"])
    sizes = case["sizes"]
    N = sum(sizes)
    nb = len(sizes)
    try:
        base = run(case, values, total)
    except LibraryRejected as e:
        if is_H0_zero_single_block(case):
            return dict(violations=[], nontrivial=False, outcome="rejected-by-design(H0=0)")
        return dict(violations=[dict(what=f"well-posed input rejected: {e}", key=None)], nontrivial=False, outcome="rejected")
    except Exception as e:  # noqa: BLE001
        return dict(violations=[dict(what=f"crash {type(e).__name__}: {str(e)[:120]}", key=None)], nontrivial=False, outcome="crash")
    Mt = M if exact else NP
    orders = orders_upto_total(1, total)
    V = []
    checks = 0
    scale0 = max(1.0, *(m.maxabs() for d in base.values() for m in d.values()))

    def conj_by(W, m):  # W m W^dagger with W a numpy matrix (exact entries as Fractions allowed)
        Wm = Mt([[x for x in row] for row in W]) if exact else NP(np.array(W, dtype=complex))
        return Wm @ m @ Wm.H()

    def cmp(label, got, want, scale=scale0):
        nonlocal checks
        checks += 1
        if not close(got, want, scale * 10, exact):
            V.append(label)

    def attempt(label, fn):
        try:
            return fn()
        except Exception as e:  # noqa: BLE001
            V.append(f"{label}: transformed run fails with {type(e).__name__}: {str(e)[:100]}")
            return None

    # 1. permutations of states and block labels
    if N <= 3:
        perms = list(itertools.permutations(range(N)))
    else:
        perms = [tuple(range(N)), (1, 0, 2, 3), (0, 2, 1, 3), (3, 2, 1, 0), (1, 2, 3, 0), (2, 0, 3, 1), (3, 0, 1, 2)]
    sigmas = list(itertools.permutations(range(nb)))
    for pi in perms:
        for sigma in sigmas:
            if pi == tuple(range(N)) and sigma == tuple(range(nb)):
                continue
            if len(perms) * len(sigmas) > 18 and (sum(pi) * 7 + sum(a * b for a, b in enumerate(sigma)) + pi[0]) % 3 and pi != tuple(range(N)) and sigma != tuple(range(nb)):
                continue  # both non-trivial: keep a fixed third of the combinations
            cfg = transform_cfg_perm(case, pi, sigma)
            P = perm_matrix(pi, N)
            pv = {o: P @ m @ P.T for o, m in values.items()}
            tr = attempt(f"permutation {pi}/{sigma}", lambda: run(cfg, pv, total))
            if tr is None:
                continue
            for name in base:
                for n in orders:
                    want = conj_by(P.astype(int).tolist() if exact else P, base[name][n])
                    cmp(f"state permutation {pi} with block relabelling {sigma}: {name}[{list(n)}] is not the permuted original", tr[name][n], want)
    # 2. rotations inside degenerate levels (only without element masks)
    if not case.get("mask"):
        E = [tuple(e) for e in case["E"]]
        levels = {}
        for a, e in enumerate(E):
            levels.setdefault(e, []).append(a)
        for e, states in levels.items():
            if len(states) < 2:
                continue
            a, b = states[0], states[1]
            rots = [((Fraction(3, 5), Fraction(4, 5)), 1)]
            if True:
                rots.append(((Fraction(3, 5), Fraction(4, 5)), 1j))
            for (c, s_), phase in rots:
                if phase != 1 and case["repr"] == "float":
                    continue
                W = [[(1 if r == cc else 0) for cc in range(N)] for r in range(N)]
                if exact:
                    ph = Q(0, 1) if phase == 1j else Q(1)
                    W[a][a], W[a][b], W[b][a], W[b][b] = Q(c), Q(s_) * ph, -Q(s_), Q(c) * ph
                    Wn = np.array([[complex(q(x)) for x in row] for row in W])
                else:
                    W = np.eye(N, dtype=complex)
                    W[a, a], W[a, b], W[b, a], W[b, b] = float(c), float(s_) * phase, -float(s_), float(c) * phase
                    Wn = W
                if exact:
                    # keep exactness: rotated values are Gaussian rationals with denominator 25
                    pv = {o: Wn @ m @ Wn.conj().T for o, m in values.items()}
                else:
                    pv = {o: Wn @ m @ Wn.conj().T for o, m in values.items()}
                cfgr = dict(case)
                tr = attempt(f"rotation in level {e}", lambda: run_rot(cfgr, pv, total, exact, W, values))
                if tr is None:
                    continue
                for name in base:
                    for n in orders:
                        cmp(f"rotation inside degenerate level E={e} (states {a},{b}, phase {phase}): {name}[{list(n)}] is not W·original·W†",
                            tr[name][n], conj_by(W, base[name][n]))
    # 3. complex conjugation
    cv = {o: m.conj() for o, m in values.items()}
    ccfg = dict(case, E=[[e[0], -e[1]] for e in case["E"]])
    tr = attempt("conjugation", lambda: run(ccfg, cv, total))
    if tr is not None:
        for name in base:
            for n in orders:
                cmp(f"complex conjugation: {name}[{list(n)}] is not the conjugate", tr[name][n], base[name][n].conj())
    # 4. shifts of H_0
    for c in (-3, Fraction(1, 2), 10, 1000):
        scfg = dict(case, shift=[str(c)])
        tr = attempt(f"shift {c}", lambda: run_shift(case, values, total, c))
        if tr is None:
            continue
        for name in base:
            for n in orders:
                want = base[name][n]
                if name == "Ht" and n == orders[0]:
                    want = want + Mt.eye(N).scale(c if exact else float(c))
                cmp(f"shift of H_0 by {c}: {name}[{list(n)}]", tr[name][n], want, scale0 * max(1.0, abs(float(c))))
    # 5. positive scaling of the whole Hamiltonian
    for sc in (2, Fraction(1, 4)):
        tr = attempt(f"scale {sc}", lambda: run_scale(case, values, total, sc))
        if tr is None:
            continue
        for name in base:
            for n in orders:
                want = base[name][n].scale(sc if exact else float(sc)) if name == "Ht" else base[name][n]
                cmp(f"scaling H by {sc}: {name}[{list(n)}]", tr[name][n], want)
    # 6. direct sum with a fixed second configuration
    for variant in ("separate", "merged"):
        tr = attempt(f"direct sum ({variant})", lambda: run_sum(case, values, total, variant))
        if tr is None:
            continue
        tr, want2 = tr
        for name in base:
            for n in orders:
                blockdiag = direct_sum(base[name][n], want2[name][n], exact)
                cmp(f"direct sum ({variant}): {name}[{list(n)}] is not the direct sum of the parts", tr[name][n], blockdiag)
    nt = any(sum(n) >= 2 and m.maxabs() > 0 for n, m in base["U"].items())
    return dict(violations=[dict(what=w, key=None) for w in V[:4]], nontrivial=nt,
                outcome="ok" if not V else "violation", stats=dict(relations_checked=checks), sample=describe(case))


def run_rot(cfg, pv, total, exact, W, values):
    if exact:
        # exact rotated values: compute W m W^dagger in Q arithmetic and hand sympy rationals over
        Wm = M([[x for x in row] for row in W])
        pvx = {o: (Wm @ M([[q(complex(x)) for x in row] for row in m]) @ Wm.H()) for o, m in values.items()}
        return run_exact_values(cfg, pvx, total)
    return run(cfg, pv, total)


def run_exact_values(cfg, mats, total):
    """Run with exact M matrices as values (sympy representation)."""
    import sympy

    from pymablock import block_diagonalize

    from ..lattice import assemble, positions

    N = sum(cfg["sizes"])

    def toS(m):
        return sympy.Matrix(N, N, lambda i, j: sympy.Rational(m.a[i][j].re.numerator, m.a[i][j].re.denominator)
                            + sympy.I * sympy.Rational(m.a[i][j].im.numerator, m.a[i][j].im.denominator))

    E = cfg["E"]
    Hd = {(0,): sympy.diag(*[sympy.Integer(e[0]) + sympy.I * sympy.Integer(e[1]) for e in E])}
    for o, m in mats.items():
        Hd[tuple(o)] = toS(m)
    dummy = {tuple(o): np.zeros((N, N), dtype=complex) for o in mats}
    _, kwargs = lattice.library_input(cfg, dummy)
    Ht, U, Ui = block_diagonalize(Hd, **kwargs)
    out = {"U": {}, "Uinv": {}, "Ht": {}}
    for n in orders_upto_total(1, total):
        for name, s in (("Ht", Ht), ("U", U), ("Uinv", Ui)):
            out[name][n] = assemble(s, cfg["sizes"], n, True, positions(cfg))
    return out


def run_shift(case, values, total, c):
    """H_0 -> H_0 + c: implemented by passing energies as exact rationals through a custom input."""
    exact = case["repr"] == "sympy"
    if float(c) == int(c):
        cfg = dict(case, E=[[e[0] + int(c), e[1]] for e in case["E"]])
        return run(cfg, values, total)
    # non-integer shift: build the input by hand
    import sympy
    from scipy import sparse

    from pymablock import block_diagonalize

    from ..lattice import assemble, positions

    N = sum(case["sizes"])
    Hd, kwargs = lattice.library_input(case, values)
    z = (0,)
    if exact:
        Hd[z] = Hd[z] + sympy.Rational(c.numerator, c.denominator) * sympy.eye(N)
    elif sparse.issparse(Hd[z]):
        Hd[z] = sparse.csr_array(Hd[z].toarray() + float(c) * np.eye(N))
    else:
        Hd[z] = Hd[z] + float(c) * np.eye(N)
    Ht, U, Ui = block_diagonalize(Hd, **kwargs)
    out = {"U": {}, "Uinv": {}, "Ht": {}}
    for n in orders_upto_total(1, total):
        for name, s in (("Ht", Ht), ("U", U), ("Uinv", Ui)):
            out[name][n] = assemble(s, case["sizes"], n, exact, positions(case))
    return out


def run_scale(case, values, total, sc):
    import sympy
    from scipy import sparse

    from pymablock import block_diagonalize

    from ..lattice import assemble, positions

    exact = case["repr"] == "sympy"
    Hd, kwargs = lattice.library_input(case, values)
    f = sympy.Rational(sc.numerator, sc.denominator) if (exact and isinstance(sc, Fraction)) else (sympy.Integer(sc) if exact else float(sc))
    Hd = {o: m * f for o, m in Hd.items()}
    Ht, U, Ui = block_diagonalize(Hd, **kwargs)
    out = {"U": {}, "Uinv": {}, "Ht": {}}
    for n in orders_upto_total(1, total):
        for name, s in (("Ht", Ht), ("U", U), ("Uinv", Ui)):
            out[name][n] = assemble(s, case["sizes"], n, exact, positions(case))
    return out


SECOND = dict(sizes=[1, 1], E=[[5, 0], [9, 0]])


def run_sum(case, values, total, variant):
    """Direct sum with the fixed 2-state, 2-block configuration SECOND."""
    exact = case["repr"] == "sympy"
    herm = case["hermitian"]
    N = sum(case["sizes"])
    nb = len(case["sizes"])
    sec = dict(SECOND, k=1, support=case["support"], pattern="dense", fd=[], mask=None, repr=case["repr"], hermitian=herm, vset=5, total=total)
    v2 = lattice.gen_values(sec, case["seed"])
    if variant == "merged" and nb < 2:
        sec_idx = [0, 0]
        sec["sizes"] = [2]
        sec["indices"] = None
    sec_alone = dict(sec)
    if variant == "merged" and nb >= 2:
        sec_idx = [0, 1]
    if variant == "separate":
        sec_idx = [nb, nb + 1]
    # second part alone: fd inherited for merged blocks so that selections agree
    if variant == "merged":
        fd = [b for b in (case.get("fd") or []) if b in set(sec_idx)]
        sec_alone["fd"] = fd
        if len(sec_alone["sizes"]) == 1 and not fd and not case.get("mask"):
            # single block defaults to full diagonalisation; the merged block in the big problem
            # is only fully diagonalised if the first part is a single default block as well
            sec_alone["fd"] = [0] if (nb == 1 and not case.get("fd") and not case.get("mask")) or (0 in (case.get("fd") or [])) else []
            if not sec_alone["fd"]:
                sec_alone["mask"] = {"0": [[0, 0], [0, 0]]}
        if case.get("mask"):
            # a mask dict on a merged block must be extended: nothing else is selected
            pass
    out2 = run(sec_alone, v2, total)
    idx = lattice.block_of(case["sizes"]) + sec_idx
    big_vals = {}
    for o in values:
        m = np.zeros((N + 2, N + 2), dtype=complex)
        m[:N, :N] = values[o]
        m[N:, N:] = v2[o]
        big_vals[o] = m
    big = dict(case, sizes=None, indices=idx, E=case["E"] + sec["E"])
    big["sizes"] = [idx.count(b) for b in range(max(idx) + 1)]
    if variant == "separate" and nb == 1 and not case.get("fd") and not case.get("mask"):
        big["fd"] = [0]  # a single block is fully diagonalised by default; keep that selection explicit
    if case.get("mask"):
        newmask = {}
        for b, m in case["mask"].items():
            if variant == "merged" and int(b) in sec_idx:
                s_old = len(m)
                extra = sec_idx.count(int(b))
                mm = [[0] * (s_old + extra) for _ in range(s_old + extra)]
                for r in range(s_old):
                    for c in range(s_old):
                        mm[r][c] = m[r][c]
                newmask[b] = mm
            else:
                newmask[b] = m
        big["mask"] = newmask
        if variant == "merged":
            sec_alone2 = dict(sec_alone, fd=[], mask={str(b): [[0] * sec_idx.count(b) for _ in range(sec_idx.count(b))] for b in set(sec_idx) if str(b) in case["mask"]})
            sec_alone2["mask"] = {str(sorted(set(sec_idx)).index(int(b)) if len(sec_alone["sizes"]) > 1 else 0): v for b, v in sec_alone2["mask"].items()} or None
            out2 = run(sec_alone2, v2, total)
    tr = run(big, big_vals, total)
    return tr, out2


def direct_sum(a, b, exact):
    if exact:
        n, m = a.n, b.n
        out = M.zeros(n + m)
        for i in range(n):
            for j in range(n):
                out.a[i][j] = a.a[i][j]
        for i in range(m):
            for j in range(m):
                out.a[n + i][n + j] = b.a[i][j]
        return out
    n, m = a.n, b.n
    arr = np.zeros((n + m, n + m), dtype=complex)
    arr[:n, :n] = a.v
    arr[n:, n:] = b.v
    return NP(arr)
