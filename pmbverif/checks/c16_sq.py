"""Second-quantised part of C16 (solve_scalar / solve_sylvester_2nd_quant) -- filled in with the Fock model."""


def cases(tier, seed):
    return []


def run_case(case):
    raise NotImplementedError
