"""Second-quantised part of C16: solve_sylvester_2nd_quant / solve_scalar satisfy
H_ii X - X H_jj = Y as an operator identity, checked in the Fock-space matrix model."""
from __future__ import annotations

import itertools
import warnings

import numpy as np


def cases(tier, seed):
    from .c07 import family

    out = []
    fam = family()
    for name, (modes, h0, terms) in fam.items():
        tn = list(terms)
        subs = [(t,) for t in tn] + (list(itertools.combinations(tn, 2)) if tier != "quick" or len(tn) <= 3 else [tuple(tn[:2])])
        for sub in subs:
            out.append(dict(solver="sq", form="scalar", model=name, terms=list(sub), seed=seed))
    for form in ("matrix-diag-block", "matrix-offdiag-blocks", "matrix-diag-block-degenerate"):
        for y in ("jc", "rabi", "mixed"):
            out.append(dict(solver="sq", form=form, y=y, seed=seed))
    return out


def run_case(case):
    try:
        with warnings.catch_warnings():
            warnings.simplefilter("ignore")
            V = run(case)
    except Exception as e:  # noqa: BLE001
        import traceback

        V = [f"raises {type(e).__name__}: {str(e)[:150]} @ {traceback.format_exc().strip().splitlines()[-2][:100]}"]
    d = {k: v for k, v in case.items() if k != "seed"}
    return dict(violations=[dict(what=f"{w} [{d}]", key=None) for w in V[:3]], nontrivial=True,
                outcome="sq:" + ("ok" if not V else "violation"), sample=d)


def run(case):
    import sympy
    from sympy.physics.quantum import Dagger

    from pymablock.number_ordered_form import NumberOperator, NumberOrderedForm
    from pymablock.second_quantization import solve_sylvester_2nd_quant

    from ..fockmodel import Space, expr_shifts, sorted_modes
    from .c07 import build, mk, to_matrix

    V = []
    if case["form"] == "scalar":
        ops, H0, Y = build(case["model"], case["terms"])
        modes = sorted_modes(ops)
        probe = Space(modes, D=4)
        d, u = expr_shifts(probe, Y)
        shift = max(d + u + [1])
        D = 2 * shift + 4 if len([m for m in probe.kind if m in "bl"]) <= 1 else shift + 4
        sp = Space(modes, D=D)
        solve = solve_sylvester_2nd_quant(([H0],))
        Ym = sympy.Matrix([[NumberOrderedForm.from_expr(Y, modes)]])
        X = solve(Ym, (0, 0))
        xm = to_matrix(sp, X, 1)
        hm = sp.expr_matrix(H0)
        ym = sp.expr_matrix(Y)
        interior = sp.interior([shift] * len(modes), [shift] * len(modes))
        res = (hm @ xm - xm @ hm - ym)[:, interior]
        if not np.isfinite(xm).all() or np.abs(res).max() > 1e-8 * max(1.0, np.abs(ym).max()):
            V.append(f"H X - X H != Y (residual {np.abs(res).max():.3g})")
        if np.abs((xm + xm.conj().T)[:, interior][interior, :]).max() > 1e-8 * max(1.0, np.abs(xm).max()):
            V.append("solution for a Hermitian right-hand side is not anti-Hermitian")
        return V
    o = mk()
    a = o["a"]
    N = NumberOperator(a)
    R = sympy.Rational
    hup, hdn = N + N**2 / 9 + R(4, 5), N + N**2 / 9 - R(4, 5)
    sp = Space([a], D=9)
    n = sp.dim
    if case["y"] == "jc":
        off01, off10 = a, Dagger(a)
    elif case["y"] == "rabi":
        off01, off10 = a + Dagger(a), a + Dagger(a)
    else:
        off01, off10 = (N + 1) * a + Dagger(a) ** 2 + 2, Dagger(a) * (N + 1) + a**2 + 2
    interior = sp.interior([2], [2])
    cols2 = np.concatenate([interior, interior + n])
    if case["form"] == "matrix-diag-block-degenerate":
        # two internal levels with identical unperturbed energy, coupled by number-changing terms
        h = N + N**2 / 9
        y01 = {"jc": a + 2 * Dagger(a), "rabi": a**2 + 3 * Dagger(a), "mixed": (N + 1) * a + 2 * Dagger(a) ** 2}[case["y"]]
        Y = sympy.Matrix([[a + Dagger(a), y01], [Dagger(y01), -(a**2 + Dagger(a) ** 2)]])
        Yn = Y.applyfunc(lambda x: NumberOrderedForm.from_expr(x, [a]))
        solve = solve_sylvester_2nd_quant(([h, h],))
        X = solve(Yn, (0, 0))
        xm = to_matrix(sp, X, 2)
        hm = to_matrix(sp, sympy.Matrix([[h, 0], [0, h]]), 2)
        ym = to_matrix(sp, Y, 2)
        res = (hm @ xm - xm @ hm - ym)[:, cols2]
        if not np.isfinite(xm).all() or np.abs(res).max() > 1e-8 * max(1.0, np.abs(ym).max()):
            V.append(f"matrix-valued block with degenerate internal levels: H X - X H != Y (residual {np.abs(res).max():.3g})")
    elif case["form"] == "matrix-diag-block":
        Y = sympy.Matrix([[a + Dagger(a), off01], [off10, -(a**2 + Dagger(a) ** 2)]])
        Yn = Y.applyfunc(lambda x: NumberOrderedForm.from_expr(x, [a]))
        solve = solve_sylvester_2nd_quant(([hup, hdn],))
        X = solve(Yn, (0, 0))
        xm = to_matrix(sp, X, 2)
        hm = to_matrix(sp, sympy.Matrix([[hup, 0], [0, hdn]]), 2)
        ym = to_matrix(sp, Y, 2)
        res = (hm @ xm - xm @ hm - ym)[:, cols2]
        if not np.isfinite(xm).all() or np.abs(res).max() > 1e-8 * max(1.0, np.abs(ym).max()):
            V.append(f"matrix-valued diagonal block: H X - X H != Y (residual {np.abs(res).max():.3g})")
    else:
        solve = solve_sylvester_2nd_quant(([hup], [hdn]))
        for idx, y, hi, hj in (((0, 1), off01 + 3 * Dagger(a), hup, hdn), ((1, 0), off10 - sympy.I * a, hdn, hup)):
            Yn = sympy.Matrix([[NumberOrderedForm.from_expr(y, [a])]])
            X = solve(Yn, idx)
            xm = to_matrix(sp, X, 1)
            res = (sp.expr_matrix(hi) @ xm - xm @ sp.expr_matrix(hj) - sp.expr_matrix(y))[:, interior]
            if not np.isfinite(xm).all() or np.abs(res).max() > 1e-8 * max(1.0, np.abs(sp.expr_matrix(y)).max()):
                V.append(f"off-diagonal block {idx}: H_ii X - X H_jj != Y (residual {np.abs(res).max():.3g})")
    return V
