from . import hermlat

ID = "C01"
LEVEL = "exploration"
ASSUMPTIONS = hermlat.ASSUMPTIONS
cases = hermlat.cases


def run_case(case):
    return hermlat.run_props(case, {"C01"})

RULE = (
    "complete enumeration of the Hermitian configuration lattice (all compositions of N into <=3 blocks x all "
    "degeneracy patterns inside blocks x k in {1,2} x term supports x structural-zero patterns x every "
    "fully_diagonalize subset x every admissible symmetric mask x representations); per case the real "
    "block_diagonalize is run and sum U†_a H_b U_c is recomputed by the harness from the returned U, U† and the "
    "*input* H at every multi-order within the bound; compared with H_tilde on kept elements and with 0 on "
    "eliminated elements (kept/eliminated sets derived from the configuration). non-trivial = the perturbation "
    "couples an eliminated pair and U has a non-zero term of order >= 2; distinct = distinct configuration hash"
)

TECHNIQUE = 'bounded-exhaustive enumeration of the configuration lattice on the real code + exact recomputation of U†HU'
LEVEL_TEXT = 'Every structure of the bounded lattice (block layouts x degeneracy patterns x supports x zero patterns x fully_diagonalize subsets x masks x representations) is run through the real block_diagonalize and the defining identity is recomputed from U and the input H at every order in the bound; a coverage statement over structures, not a sample.'
LEVEL_NOTE = "Trusted base: the harness's own exact arithmetic (pmbverif/exact.py) and reference solver (pmbverif/refsolve.py), numpy/sympy for value conversion; identities are polynomial in the entries so generic integer values expose a violated identity unless the point is a root; bounds as stated in evidence (N, order, k)."
