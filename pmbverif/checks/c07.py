"""C07 -- second-quantised block diagonalisation agrees with matrices on Fock states."""
from __future__ import annotations

import itertools
import warnings

import numpy as np

from ..fockmodel import Space, sorted_modes

ID = "C07"
LEVEL = "exploration"
TECHNIQUE = "bounded-exhaustive enumeration of a second-quantised model family (mode sets x H_0 x perturbation-term subsets x input forms x elimination masks x orders) against numeric block diagonalisation of truncated Fock-space matrices and operator identities in an independent matrix model"
LEVEL_TEXT = (
    "Every model of a generated family (bosons, fermions, spin, ladder and mixtures; every subset of a perturbation "
    "term alphabet; scalar, matrix-valued and two-block inputs; default, operator-power and symbolic-power masks) is "
    "block-diagonalised with the real operator-valued algorithm; each order of H_tilde and U is evaluated from its "
    "term table in an independent Fock-space matrix model and compared, on all Fock states far enough from the "
    "truncation edge (vacuum and single occupations included), with the numeric block diagonalisation of the truncated "
    "matrices with the corresponding selection, and U†U = 1, U†HU = H_tilde are checked inside the matrix model."
)
LEVEL_NOTE = "Trusted: pmbverif/fockmodel.py; the numeric matrix run of block_diagonalize as reference (tied to the exact reference by C03); H_0 levels checked non-degenerate by the harness (degenerate models are skipped and counted)."
RULE = (
    "case = (mode set, H_0, subset of perturbation terms, input form, mask, order bound); non-trivial = second-order "
    "H_tilde is a non-zero operator; distinct = distinct case"
)
ASSUMPTIONS = ["interior = states at least order x (max shift per mode) away from the truncation edge", "tolerance 1e-8 relative"]


def mk():
    from sympy.physics.quantum import pauli
    from sympy.physics.quantum.boson import BosonOp
    from sympy.physics.quantum.fermion import FermionOp

    from pymablock.number_ordered_form import LadderOp

    return dict(a=BosonOp("a"), b=BosonOp("b"), c=FermionOp("c"), d=FermionOp("d"), e=FermionOp("e"),
                s=pauli.SigmaMinus("s"), l=LadderOp("l"))


def family():
    """name -> (modes, H0 builder, {term name: builder})  -- builders take (ops, N, Dg)."""
    import sympy

    R = sympy.Rational
    F = {}
    F["boson1"] = (("a",), lambda o, N, Dg: N["a"] + N["a"] ** 2 / 10, {
        "x": lambda o, N, Dg: o["a"] + Dg(o["a"]),
        "x2": lambda o, N, Dg: o["a"] ** 2 + Dg(o["a"]) ** 2,
        "nx": lambda o, N, Dg: N["a"] * o["a"] + Dg(o["a"]) * N["a"],
        "ip": lambda o, N, Dg: sympy.I * (o["a"] - Dg(o["a"])),
    })
    F["boson2"] = (("a", "b"), lambda o, N, Dg: N["a"] + R(17, 12) * N["b"] + N["a"] ** 2 / 10 + N["a"] * N["b"] / 7, {
        "hop": lambda o, N, Dg: Dg(o["a"]) * o["b"] + Dg(o["b"]) * o["a"],
        "pair": lambda o, N, Dg: o["a"] * o["b"] + Dg(o["a"]) * Dg(o["b"]),
        "xa": lambda o, N, Dg: o["a"] + Dg(o["a"]),
    })
    F["fermion2"] = (("c", "d"), lambda o, N, Dg: N["c"] + R(5, 2) * N["d"] + R(1, 3) * N["c"] * N["d"], {
        "hop": lambda o, N, Dg: Dg(o["c"]) * o["d"] + Dg(o["d"]) * o["c"],
        "pair": lambda o, N, Dg: o["c"] * o["d"] + Dg(o["d"]) * Dg(o["c"]),
        "ipair": lambda o, N, Dg: sympy.I * (o["c"] * o["d"] - Dg(o["d"]) * Dg(o["c"])),
    })
    F["fermion3"] = (("c", "d", "e"), lambda o, N, Dg: N["c"] + R(5, 2) * N["d"] + R(19, 4) * N["e"] + R(1, 3) * N["c"] * N["d"], {
        "hop_cd": lambda o, N, Dg: Dg(o["c"]) * o["d"] + Dg(o["d"]) * o["c"],
        "hop_de": lambda o, N, Dg: Dg(o["d"]) * o["e"] + Dg(o["e"]) * o["d"],
        "pair_ce": lambda o, N, Dg: o["c"] * o["e"] + Dg(o["e"]) * Dg(o["c"]),
        "pair_cd": lambda o, N, Dg: o["c"] * o["d"] + Dg(o["d"]) * Dg(o["c"]),
    })
    F["spinboson"] = (("a", "s"), lambda o, N, Dg: N["a"] + R(8, 5) * N["s"] + N["a"] ** 2 / 9, {
        "jc": lambda o, N, Dg: Dg(o["s"]) * o["a"] + o["s"] * Dg(o["a"]),
        "rabi": lambda o, N, Dg: (o["s"] + Dg(o["s"])) * (o["a"] + Dg(o["a"])),
        "disp": lambda o, N, Dg: (2 * N["s"] - 1) * (o["a"] + Dg(o["a"])),
    })
    F["ladder"] = (("l",), lambda o, N, Dg: N["l"] + N["l"] ** 2 / 11, {
        "x": lambda o, N, Dg: o["l"] + Dg(o["l"]),
        "x2": lambda o, N, Dg: o["l"] ** 2 + Dg(o["l"]) ** 2,
        # sideband-dependent amplitude, sign sensitive: the ladder number operator takes negative values
        "absx": lambda o, N, Dg: sympy.sqrt(N["l"] ** 2) * o["l"] + Dg(o["l"]) * sympy.sqrt(N["l"] ** 2),
    })
    F["holstein"] = (("a", "c", "d"), lambda o, N, Dg: N["a"] + R(5, 3) * N["c"] + R(7, 2) * N["d"] + N["a"] ** 2 / 10, {
        "nc_x": lambda o, N, Dg: N["c"] * (o["a"] + Dg(o["a"])),
        "hop": lambda o, N, Dg: Dg(o["c"]) * o["d"] + Dg(o["d"]) * o["c"],
        "xhop": lambda o, N, Dg: (o["a"] + Dg(o["a"])) * (Dg(o["c"]) * o["d"] + Dg(o["d"]) * o["c"]),
    })
    F["spinfermion"] = (("s", "c", "d"), lambda o, N, Dg: R(8, 5) * N["s"] + N["c"] + R(5, 2) * N["d"] + R(1, 3) * N["c"] * N["d"] + R(2, 7) * N["s"] * N["d"], {
        "sc": lambda o, N, Dg: Dg(o["s"]) * o["c"] + Dg(o["c"]) * o["s"],
        "hop": lambda o, N, Dg: Dg(o["c"]) * o["d"] + Dg(o["d"]) * o["c"],
        "sxpair": lambda o, N, Dg: (o["s"] + Dg(o["s"])) * (o["c"] * o["d"] + Dg(o["d"]) * Dg(o["c"])),
    })
    F["bosonspinfermion"] = (("a", "s", "c"), lambda o, N, Dg: N["a"] + N["a"] ** 2 / 10 + R(8, 5) * N["s"] + R(9, 4) * N["c"] + R(1, 3) * N["s"] * N["c"], {
        "sc": lambda o, N, Dg: Dg(o["s"]) * o["c"] + Dg(o["c"]) * o["s"],
        "ac": lambda o, N, Dg: Dg(o["a"]) * o["c"] + Dg(o["c"]) * o["a"],
        "xs": lambda o, N, Dg: (o["a"] + Dg(o["a"])) * (o["s"] + Dg(o["s"])),
    })
    from sympy.physics.quantum import pauli as _pauli

    F["pauli"] = (("a", "s"), lambda o, N, Dg: N["a"] + N["a"] ** 2 / 9 + R(4, 5) * _pauli.SigmaZ("s"), {
        "sx": lambda o, N, Dg: _pauli.SigmaX("s") * (o["a"] + Dg(o["a"])),
        "sy": lambda o, N, Dg: _pauli.SigmaY("s") * sympy.I * (o["a"] - Dg(o["a"])),
        "sz": lambda o, N, Dg: _pauli.SigmaZ("s") * (o["a"] + Dg(o["a"])) + _pauli.SigmaX("s"),
    })
    F["ladderfermion"] = (("l", "c"), lambda o, N, Dg: N["l"] + N["l"] ** 2 / 11 + R(9, 4) * N["c"], {
        "lc": lambda o, N, Dg: Dg(o["l"]) * o["c"] + Dg(o["c"]) * o["l"],
        "x": lambda o, N, Dg: o["l"] + Dg(o["l"]),
    })
    return F


def cases(tier, seed):
    qk = tier == "quick"
    out = []
    fam = family()
    for name, (modes, h0, terms) in fam.items():
        tnames = list(terms)
        maxsub = 2 if qk else 3
        for r in range(1, maxsub + 1):
            for sub in itertools.combinations(tnames, r):
                if qk and r == 2 and name in ("holstein", "fermion3", "boson2", "bosonspinfermion") and sub != tuple(tnames[:2]):
                    continue
                out.append(dict(kind="scalar", model=name, terms=list(sub), order=2 if (qk or len(modes) > 2) else 3, mask=None))
    # the same Hamiltonians written as one expression in a perturbative symbol
    for model, terms in (("boson1", ["x", "x2"]), ("spinboson", ["jc"]), ("fermion2", ["hop", "pair"]), ("pauli", ["sx"])):
        out.append(dict(kind="scalar", model=model, terms=terms, order=2, mask=None, symbol_form=True))
    # operator-valued masks (scalar input)
    for model, terms, mask in (("boson1", ["x", "x2"], "x"), ("boson1", ["x", "x2"], "x2"), ("boson1", ["x", "nx"], "raise-k"),
                               ("boson2", ["hop", "xa"], "hop"), ("spinboson", ["jc", "rabi"], "rabi-counter"),
                               ("fermion2", ["hop", "pair"], "pair")):
        out.append(dict(kind="scalar", model=model, terms=terms, order=2, mask=mask))
    # matrix-valued inputs: Jaynes-Cummings in 2x2 matrix form
    for form in ("two-blocks", "single-block", "single-block-mask", "two-blocks-fd"):
        for pert in ("jc", "rabi", "jc+z"):
            out.append(dict(kind="matrix", form=form, pert=pert, order=2 if qk else 3))
    # symbolic-power matrix mask [[0, a†**k], [a**k, 0]], k >= 0: also selects the number-conserving (k = 0) terms
    for pert in ("jc", "rabi", "jc+z", "rabi-c"):
        out.append(dict(kind="matrix", form="single-block-mask-k", pert=pert, order=2 if qk else 3))
    out.append(dict(kind="matrix", form="single-block-mask", pert="rabi-c", order=2))
    # two blocks whose H_0 contain different operator sets (first block: fermion only; second: boson and fermion)
    for pert in ("mixed-ops", "mixed-ops-spin"):
        out.append(dict(kind="matrix", form="two-blocks", pert=pert, order=2, degenerate=True))
    # two blocks with *identical* lists of unperturbed energies (H_0 = h(N) x 1_2): the coupled levels differ by one quantum
    # (perturbations with diagonal or two-quantum terms generate number-conserving inter-block couplings at second order,
    # which are resonant for identical H_0 and correctly refused)
    for pert in ("jc", "rabi"):
        out.append(dict(kind="matrix", form="two-blocks", pert=pert, order=3, degenerate=True, same_h0=True))
    # the same matrix-valued forms with a ladder (Floquet) operator instead of the boson
    for form in ("two-blocks", "single-block", "two-blocks-fd"):
        for pert in ("jc", "rabi", "jc+z", "asym2"):
            out.append(dict(kind="matrix", form=form, pert=pert, order=2, mode="l"))
    # four internal levels in two blocks of two (operator-valued 2x2 blocks)
    for variant in ("plain", "fd0", "single"):
        out.append(dict(kind="matrix4", variant=variant, order=2))
    # internal levels with identical H_0 (degenerate pairs are kept), asymmetric number-changing coupling
    for pert in ("asym", "asym2"):
        out.append(dict(kind="matrix", form="single-block", pert=pert, order=2, degenerate=True))
    return out


def build(model, terms):
    import sympy
    from sympy.physics.quantum import Dagger

    from pymablock.number_ordered_form import NumberOperator

    fam = family()
    modes, h0, tb = fam[model]
    o = mk()
    N = {m: NumberOperator(o[m]) for m in modes}
    H0 = h0(o, N, Dagger)
    H1 = sum((tb[t](o, N, Dagger) for t in terms), sympy.Integer(0))
    return [o[m] for m in modes], H0, H1


def mask_spec(model, mask):
    """(library mask expression, set of eliminated shift vectors or a predicate)."""
    import sympy
    from sympy.physics.quantum import Dagger

    o = mk()
    k = sympy.symbols("k", integer=True, nonnegative=True)
    if mask == "x":
        return o["a"] + Dagger(o["a"]), lambda sh: sh in ((1,), (-1,))
    if mask == "x2":
        return o["a"] ** 2 + Dagger(o["a"]) ** 2, lambda sh: sh in ((2,), (-2,))
    if mask == "raise-k":
        # symbolic power: every term with >= 1 creation or annihilation operators
        return o["a"] ** (k + 1) + Dagger(o["a"]) ** (k + 1), lambda sh: sh[0] != 0
    if mask == "hop":
        return Dagger(o["a"]) * o["b"] + Dagger(o["b"]) * o["a"], lambda sh: sh in ((-1, 1), (1, -1))
    if mask == "rabi-counter":
        return o["s"] * o["a"] + Dagger(o["s"]) * Dagger(o["a"]), lambda sh: sh in ((1, 1), (-1, -1))
    if mask == "pair":
        return o["c"] * o["d"] + Dagger(o["d"]) * Dagger(o["c"]), lambda sh: sh in ((1, 1), (-1, -1))
    raise ValueError(mask)


def fock_D(modes_sorted, order, maxshift):
    from pymablock.number_ordered_form import LadderOp
    from sympy.physics.quantum.boson import BosonOp

    ninf = sum(isinstance(m, (BosonOp, LadderOp)) for m in modes_sorted)
    margin = order * maxshift
    if ninf == 0:
        return 2, margin
    D = 2 * margin + 3 if ninf == 1 else margin + 3
    if any(isinstance(m, LadderOp) for m in modes_sorted):
        D = 2 * margin + 3
    return D, margin


def to_matrix(sp, val, matdim=1):
    """Operator-valued element (scalar NOF/Expr or sympy Matrix of them) -> big numeric matrix."""
    import sympy

    from pymablock.series import one, zero

    n = sp.dim
    if val is zero:
        return np.zeros((matdim * n, matdim * n), complex)
    if val is one:
        return np.eye(matdim * n, dtype=complex)
    if isinstance(val, sympy.MatrixBase):
        r, c = val.shape
        out = np.zeros((r * n, c * n), complex)
        for i in range(r):
            for j in range(c):
                out[i * n : (i + 1) * n, j * n : (j + 1) * n] = sp.expr_matrix(val[i, j])
        return out
    return sp.expr_matrix(val)


def compare_series(sp, lib, num, orders, interior, V, label, matdim=1):
    n = sp.dim
    cols = np.concatenate([interior + i * n for i in range(matdim)])
    nontrivial = False
    for name in ("H_tilde", "U", "U_adj"):
        for k in orders:
            a = lib[name][k][np.ix_(cols, cols)]
            b = num[name][k][np.ix_(cols, cols)]
            if not np.isfinite(a).all():
                V.append(f"{label}: {name}[{k}] has non-finite matrix elements")
                continue
            d = np.abs(a - b).max() if a.size else 0
            if d > 1e-8 * max(1.0, np.abs(b).max()):
                V.append(f"{label}: {name}[{k}] differs from the numeric block diagonalisation of the truncated matrices by {d:.3g} on interior Fock states")
            if name == "H_tilde" and k >= 2 and np.abs(b).max() > 1e-9:
                nontrivial = True
    return nontrivial


def identities(sp, lib, Hmats, orders, interior, V, label, matdim=1):
    n = sp.dim
    cols = np.concatenate([interior + i * n for i in range(matdim)])
    K = max(orders)
    for k in orders:
        uu = sum(lib["U_adj"][a] @ lib["U"][k - a] for a in range(k + 1))
        want = np.eye(uu.shape[0]) if k == 0 else np.zeros_like(uu)
        if np.abs((uu - want)[:, cols][cols, :]).max() > 1e-8:
            V.append(f"{label}: (U† U)[{k}] != delta inside the matrix model")
        uhu = sum(lib["U_adj"][a] @ Hmats.get(b, 0 * uu) @ lib["U"][k - a - b] for a in range(k + 1) for b in range(k - a + 1))
        d = np.abs((uhu - lib["H_tilde"][k])[:, cols][cols, :]).max()
        if d > 1e-8 * max(1.0, np.abs(lib["H_tilde"][k]).max()):
            V.append(f"{label}: (U† H U)[{k}] != H_tilde[{k}] inside the matrix model (by {d:.3g})")


def run_case(case):
    try:
        with warnings.catch_warnings():
            warnings.simplefilter("ignore")
            V, nt, outcome, stats = {"scalar": run_scalar, "matrix": run_matrix, "matrix4": run_matrix4}[case["kind"]](case)
    except Exception as e:  # noqa: BLE001
        import traceback

        V, nt, outcome, stats = [f"raises {type(e).__name__}: {str(e)[:160]} @ {traceback.format_exc().strip().splitlines()[-2][:100]}"], True, "crash", {}
    return dict(violations=[dict(what=f"{w} [{case}]", key=None) for w in V[:4]], nontrivial=nt, outcome=outcome,
                stats=stats, sample=case)


def shift_of_state_pair(sp, m, n):
    """n - m per mode (positive = lowering), the power vector of the term connecting <m| |n>."""
    return tuple(int(b - a) for a, b in zip(sp.states[m], sp.states[n]))


def run_scalar(case):
    import sympy

    from pymablock import block_diagonalize

    ops, H0, H1 = build(case["model"], case["terms"])
    modes = sorted_modes(ops)
    order = case["order"]
    # maximal shift of H1 per mode
    probe = Space(modes, D=4)
    from ..fockmodel import expr_shifts

    d, u = expr_shifts(probe, H1)
    maxshift = max(d + u + [1])
    D, margin = fock_D(modes, order, maxshift)
    sp = Space(modes, D=D)
    h0m = sp.expr_matrix(H0)
    h1m = sp.expr_matrix(H1)
    levels = np.real(np.diag(h0m))
    gaps = np.abs(levels.reshape(-1, 1) - levels.reshape(1, -1)) + np.eye(sp.dim)
    if gaps.min() < 1e-6:
        return [], False, "skipped-degenerate", dict(skipped_degenerate=1)
    kwargs = {}
    nkwargs = {}
    if case["mask"]:
        mexpr, pred = mask_spec(case["model"], case["mask"])
        kwargs["fully_diagonalize"] = mexpr
        mask = np.zeros((sp.dim, sp.dim), dtype=bool)
        for m in range(sp.dim):
            for n in range(sp.dim):
                if m != n and pred(shift_of_state_pair(sp, m, n)):
                    mask[m, n] = True
        nkwargs["fully_diagonalize"] = {0: mask}
    if case.get("symbol_form"):
        gsym = sympy.Symbol("g", real=True)
        outs = block_diagonalize(H0 + gsym * H1, symbols=[gsym], **kwargs)
        sp.subs = {gsym: 1}  # every order-n element carries the monomial g**n
    else:
        outs = block_diagonalize([H0, H1], **kwargs)
    nouts = block_diagonalize([np.diag(levels), h1m], **nkwargs)
    orders = list(range(order + 1))
    lib = {nm: {k: to_matrix(sp, s[0, 0, k]) for k in orders} for nm, s in zip(("H_tilde", "U", "U_adj"), outs)}

    def numval(s, k):
        from pymablock.series import one, zero

        v = s[0, 0, k]
        if v is zero:
            return np.zeros((sp.dim, sp.dim), complex)
        if v is one:
            return np.eye(sp.dim, dtype=complex)
        return np.asarray(v.toarray() if hasattr(v, "toarray") else v, dtype=complex)

    num = {nm: {k: numval(s, k) for k in orders} for nm, s in zip(("H_tilde", "U", "U_adj"), nouts)}
    marg = [margin] * len(modes)
    interior = sp.interior(marg, marg)
    V = []
    label = f"{case['model']} terms={case['terms']} mask={case['mask']}"
    nt = compare_series(sp, lib, num, orders, interior, V, label)
    identities(sp, lib, {0: h0m, 1: h1m}, orders, interior, V, label)
    return V, nt, "ok" if not V else "violation", dict(interior_states=int(interior.size), elements=3 * len(orders))


def run_matrix(case):
    """Jaynes-Cummings-type models given as 2x2 matrices of boson operators."""
    import sympy
    from sympy.physics.quantum import Dagger

    from pymablock import block_diagonalize
    from pymablock.number_ordered_form import NumberOperator

    o = mk()
    a = o[case.get("mode", "a")]  # a boson, or a ladder (Floquet) operator
    N = NumberOperator(a)
    R = sympy.Rational
    order = case["order"]
    H0 = sympy.Matrix([[N + N**2 / 9 + R(4, 5), 0], [0, N + N**2 / 9 - R(4, 5)]])
    if case.get("degenerate"):
        H0 = sympy.Matrix([[N + N**2 / 9, 0], [0, N + N**2 / 9]])
    if case["pert"] == "jc":
        H1 = sympy.Matrix([[0, a], [Dagger(a), 0]])
    elif case["pert"] == "rabi":
        H1 = sympy.Matrix([[0, a + Dagger(a)], [a + Dagger(a), 0]])
    elif case["pert"] == "asym":
        H1 = sympy.Matrix([[a + Dagger(a), a + 2 * Dagger(a)], [Dagger(a) + 2 * a, 0]])
    elif case["pert"] == "asym2":
        H1 = sympy.Matrix([[0, a**2 + 3 * Dagger(a)], [Dagger(a) ** 2 + 3 * a, a + Dagger(a)]])
    elif case["pert"] == "rabi-c":  # number-changing and number-conserving parts in the off-diagonal element
        H1 = sympy.Matrix([[0, a + Dagger(a) + R(3, 10)], [a + Dagger(a) + R(3, 10), 0]])
    elif case["pert"] in ("mixed-ops", "mixed-ops-spin"):
        f = o["c"] if case["pert"] == "mixed-ops" else o["s"]
        Nf = NumberOperator(f)
        H0 = sympy.Matrix([[R(9, 4) * Nf + R(4, 5), 0], [0, R(9, 4) * Nf + N + N**2 / 9]])
        H1 = sympy.Matrix([[0, a + 2 * Dagger(a) + Nf], [Dagger(a) + 2 * a + Nf, (a + Dagger(a)) * (1 + Nf)]])
    else:
        H1 = sympy.Matrix([[a + Dagger(a), a], [Dagger(a), -(a + Dagger(a))]])
    modes = [a]
    if case["pert"] in ("mixed-ops", "mixed-ops-spin"):
        modes = [a, f]
    D, margin = fock_D(modes, order, 1)
    sp = Space(modes, D=D)
    n = sp.dim
    h0m = to_matrix(sp, H0, 2)
    h1m = to_matrix(sp, H1, 2)
    levels = np.real(np.diag(h0m))
    gaps = np.abs(levels.reshape(-1, 1) - levels.reshape(1, -1)) + np.eye(2 * n)
    if gaps.min() < 1e-6 and not case.get("degenerate"):
        return [], False, "skipped-degenerate", dict(skipped_degenerate=1)
    form = case["form"]
    kwargs, nkwargs = {}, {}
    nb = 1
    if form.startswith("two-blocks"):
        kwargs["subspace_indices"] = [0, 1]
        nkwargs["subspace_indices"] = [0] * n + [1] * n
        nb = 2
        if form == "two-blocks-fd":
            kwargs["fully_diagonalize"] = (0,)
            nkwargs["fully_diagonalize"] = (0,)
    elif form == "single-block-mask":
        # eliminate only the counter-rotating / off-diagonal single-photon terms
        mexpr = sympy.Matrix([[sympy.S.Zero, a + Dagger(a)], [a + Dagger(a), sympy.S.Zero]])
        kwargs["fully_diagonalize"] = mexpr
        mask = np.zeros((2 * n, 2 * n), dtype=bool)
        for r in range(2):
            for c in range(2):
                if r == c:
                    continue
                for m in range(n):
                    for k in range(n):
                        if abs(sp.states[m][0] - sp.states[k][0]) == 1:
                            mask[r * n + m, c * n + k] = True
        nkwargs["fully_diagonalize"] = {0: mask}
    elif form == "single-block-mask-k":
        kk = sympy.Symbol("k", integer=True, nonnegative=True)
        mexpr = sympy.Matrix([[sympy.S.Zero, Dagger(a) ** kk], [a**kk, sympy.S.Zero]])
        kwargs["fully_diagonalize"] = mexpr
        mask = np.zeros((2 * n, 2 * n), dtype=bool)
        for m in range(n):
            for k in range(n):
                if sp.states[m][0] >= sp.states[k][0]:  # <m| a†^j |k> with j = m - k >= 0 in element (0, 1)
                    mask[m, n + k] = True
                    mask[n + k, m] = True
        nkwargs["fully_diagonalize"] = {0: mask}
    if case.get("same_h0"):
        # the numeric default solver refuses blocks that share eigenvalues (even if those states are never coupled):
        # the reference uses a plain energy-denominator solver on the same partition
        offs_ = [0, n, 2 * n]

        def plain_solver(Y, index):
            from pymablock.series import zero as _zero

            if Y is _zero:
                return _zero
            Yd = np.asarray(Y.toarray() if hasattr(Y, "toarray") else Y, dtype=complex)
            Ea, Eb = levels[offs_[index[0]]:offs_[index[0] + 1]], levels[offs_[index[1]]:offs_[index[1] + 1]]
            dE = Ea.reshape(-1, 1) - Eb.reshape(1, -1)
            out_ = np.zeros_like(Yd)
            np.divide(Yd, dE, out=out_, where=np.abs(dE) > 1e-9)
            return out_

        nkwargs["solve_sylvester"] = plain_solver
    outs = block_diagonalize([H0, H1], **kwargs)
    nouts = block_diagonalize([np.diag(levels), h1m], **nkwargs)
    orders = list(range(order + 1))

    def assemble_lib(s, k):
        if nb == 1:
            return to_matrix(sp, s[0, 0, k], 2)
        out = np.zeros((2 * n, 2 * n), complex)
        for i in range(2):
            for j in range(2):
                out[i * n : (i + 1) * n, j * n : (j + 1) * n] = to_matrix(sp, s[i, j, k], 1)
        return out

    def assemble_num(s, k):
        from pymablock.series import one, zero

        out = np.zeros((2 * n, 2 * n), complex)
        sizes = [2 * n] if nb == 1 else [n, n]
        off = [0] + list(np.cumsum(sizes))
        for i in range(nb):
            for j in range(nb):
                v = s[i, j, k]
                if v is zero:
                    continue
                blk = np.eye(sizes[i]) if v is one else np.asarray(v.toarray() if hasattr(v, "toarray") else v, dtype=complex)
                out[off[i] : off[i + 1], off[j] : off[j + 1]] = blk
        return out

    lib = {nm: {k: assemble_lib(s, k) for k in orders} for nm, s in zip(("H_tilde", "U", "U_adj"), outs)}
    num = {nm: {k: assemble_num(s, k) for k in orders} for nm, s in zip(("H_tilde", "U", "U_adj"), nouts)}
    interior = sp.interior([margin] * len(modes), [margin] * len(modes))
    V = []
    label = f"matrix-valued {form} {case['pert']}"
    nt = compare_series(sp, lib, num, orders, interior, V, label, matdim=2)
    identities(sp, lib, {0: h0m, 1: h1m}, orders, interior, V, label, matdim=2)
    return V, nt, "ok" if not V else "violation", dict(interior_states=int(interior.size) * 2, elements=3 * len(orders))


def run_matrix4(case):
    """Four internal levels coupled to one boson; blocks of two internal levels each."""
    import sympy
    from sympy.physics.quantum import Dagger

    from pymablock import block_diagonalize
    from pymablock.number_ordered_form import NumberOperator
    from pymablock.series import one, zero

    a = mk()["a"]
    N = NumberOperator(a)
    R = sympy.Rational
    order = case["order"]
    offs = [R(0), R(3, 5), R(21, 10), R(17, 5)]
    h = N + N**2 / 9
    H0 = sympy.diag(*[h + e for e in offs])
    coef = {(0, 1): (1, 2), (0, 2): (2, -1), (0, 3): (1, 3), (1, 2): (-2, 1), (1, 3): (3, 1), (2, 3): (1, -1)}
    H1 = sympy.zeros(4, 4)
    for i in range(4):
        H1[i, i] = (i + 1) * (a + Dagger(a))
    for (i, j), (x, y) in coef.items():
        H1[i, j] = x * a + y * Dagger(a)
        H1[j, i] = x * Dagger(a) + y * a
    D, margin = fock_D([a], order, 1)
    sp = Space([a], D=D)
    n = sp.dim
    h0m = to_matrix(sp, H0, 4)
    h1m = to_matrix(sp, H1, 4)
    levels = np.real(np.diag(h0m))
    gaps = np.abs(levels.reshape(-1, 1) - levels.reshape(1, -1)) + np.eye(4 * n)
    if gaps.min() < 1e-6:
        return [], False, "skipped-degenerate", dict(skipped_degenerate=1)
    kwargs, nkwargs = {}, {}
    if case["variant"] == "single":
        sizes = [4]
    else:
        sizes = [2, 2]
        kwargs["subspace_indices"] = [0, 0, 1, 1]
        nkwargs["subspace_indices"] = [0] * (2 * n) + [1] * (2 * n)
        if case["variant"] == "fd0":
            kwargs["fully_diagonalize"] = (0,)
            nkwargs["fully_diagonalize"] = (0,)
    outs = block_diagonalize([H0, H1], **kwargs)
    nouts = block_diagonalize([np.diag(levels), h1m], **nkwargs)
    orders = list(range(order + 1))
    off = [0] + list(np.cumsum(sizes))

    def assemble(s_, k, numeric):
        out = np.zeros((4 * n, 4 * n), complex)
        for i in range(len(sizes)):
            for j in range(len(sizes)):
                v = s_[i, j, k]
                if v is zero:
                    continue
                rows, cols = sizes[i] * n, sizes[j] * n
                if v is one:
                    blk = np.eye(rows)
                elif numeric:
                    blk = np.asarray(v.toarray() if hasattr(v, "toarray") else v, dtype=complex)
                else:
                    blk = to_matrix(sp, v, sizes[i]) if v.shape[0] == v.shape[1] else None
                    if blk is None:
                        raise ValueError("non-square operator block")
                out[off[i] * n : off[i + 1] * n, off[j] * n : off[j + 1] * n] = blk
        return out

    lib = {nm: {k: assemble(s_, k, False) for k in orders} for nm, s_ in zip(("H_tilde", "U", "U_adj"), outs)}
    num = {nm: {k: assemble(s_, k, True) for k in orders} for nm, s_ in zip(("H_tilde", "U", "U_adj"), nouts)}
    interior = sp.interior([margin], [margin])
    V = []
    label = f"four internal levels ({case['variant']})"
    nt = compare_series(sp, lib, num, orders, interior, V, label, matdim=4)
    identities(sp, lib, {0: h0m, 1: h1m}, orders, interior, V, label, matdim=4)
    return V, nt, "ok" if not V else "violation", dict(interior_states=int(interior.size) * 4, elements=3 * len(orders))
