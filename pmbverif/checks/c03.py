from . import hermlat

ID = "C03"
LEVEL = "exploration"
ASSUMPTIONS = hermlat.ASSUMPTIONS
cases = hermlat.cases


def run_case(case):
    return hermlat.run_props(case, {"C03"})

RULE = (
    "same lattice as C01; per case (a) (U - U†)/2 restricted to kept elements is zero at every order, (b) U, U†, "
    "H_tilde equal the output of pmbverif.refsolve.hermitian: an order-by-order solution of unitarity + "
    "elimination + gauge in exact Gaussian-rational arithmetic on full matrices with explicit H_0 products "
    "(shares no code with pymablock). Exact equality for sympy inputs. non-trivial as in C01"
)

TECHNIQUE = 'bounded-exhaustive enumeration of the configuration lattice + independent exact reference solver'
LEVEL_TEXT = 'Same lattice; gauge condition and equality with an independent order-by-order reference solution in exact arithmetic for every structure and order in the bound; this is what pins the unique least-action solution.'
LEVEL_NOTE = "Trusted base: the harness's own exact arithmetic (pmbverif/exact.py) and reference solver (pmbverif/refsolve.py), numpy/sympy for value conversion; identities are polynomial in the entries so generic integer values expose a violated identity unless the point is a root; bounds as stated in evidence (N, order, k)."
