"""C17 -- ComplementProjector equals the dense matrix 1 - R L† under every operator operation."""
from __future__ import annotations

import itertools

import numpy as np

ID = "C17"
LEVEL = "exploration"
TECHNIQUE = "bounded-exhaustive enumeration of operator expression trees x vector sets x operand shapes against a dense-matrix model"
LEVEL_TEXT = (
    "Every expression tree up to the stated depth over {P, .T, .H, .conjugate(), products/sums/scalings with "
    "dense, sparse and LinearOperator operands, adjoint/transpose of composites} is applied from both sides to "
    "every operand shape for every class of vector set (real/complex/mixed, L=R orthonormal, biorthogonal, L within 1e-7 of R, "
    "unnormalised and unrelated sets with L†R != 1, rank 1..2), including self-compositions P@P, P.dot(P), P**2, P@P.H, and compared "
    "with the same expression on the dense matrix 1 - R L†."
)
LEVEL_NOTE = "Trusted: numpy dense linear algebra as the reference model; scipy's LinearOperator composition rules are part of the system under test."
RULE = (
    "cases = vector-set class (field x L=R|biorthogonal x rank) x unary chain (length<=2 over T,H,C) x composite "
    "template x outer unary; every case applies the operator to all operand shapes from the left and right, via "
    "matvec/matmat/rmatvec/rmatmat and @. non-trivial = operand has a component inside span(R) (so projector acts "
    "non-trivially) and at least one comparison was made; distinct = distinct case description"
)
ASSUMPTIONS = ["tolerance 1e-10 relative on dense comparison", "n = 4 (quick) / n in {4,6} (thorough)"]

UNARY = {
    "T": (lambda op: op.T, lambda D: D.T),
    "H": (lambda op: op.H, lambda D: D.conj().T),
    "C": (lambda op: op.conjugate(), lambda D: D.conj()),
}


def vector_sets(n, field, kind, rank, tag):
    rng = np.random.default_rng([tag, n, rank, 99])
    A = rng.integers(-3, 4, (n, rank)).astype(float)
    if field in ("complex", "real-complexL", "complex-realL"):
        A = A + 1j * rng.integers(-3, 4, (n, rank))
    while np.linalg.matrix_rank(A) < rank:
        A = A + np.eye(n)[:, :rank]
    if kind == "near":
        # biorthonormal pair whose left vectors differ from the right ones by 1e-7 only (weakly non-Hermitian
        # problem): the object must still denote 1 - R L†, not 1 - R R†
        Rn, _ = np.linalg.qr(A)
        Zn = rng.integers(-2, 3, (n, rank)).astype(float)
        if field != "real":
            Zn = Zn + 1j * rng.integers(-2, 3, (n, rank))
        Zn = Zn - Rn @ (Rn.conj().T @ Zn)
        return Rn, Rn + 1e-7 * Zn
    if kind == "raw":  # L = R not normalised: 1 - R R† is not a projector, but still the operator the object denotes
        return A / 2, None
    if kind == "generic":  # unrelated R and L (L† R != 1)
        Z = rng.integers(-2, 3, (n, rank)).astype(float)
        if field in ("complex", "real-complexL"):
            Z = Z + 1j * rng.integers(-2, 3, (n, rank))
        R_ = A.real if field == "real-complexL" else A
        if field == "complex-realL":
            Z = Z.real
        return R_ / 2, Z / 2 + np.eye(n)[:, :rank]
    if kind == "orth":
        R, _ = np.linalg.qr(A)
        return R, None
    if kind == "orth_same":  # L passed explicitly but equal to R
        R, _ = np.linalg.qr(A)
        return R, R.copy()
    # biorthogonal: L† R = 1 with L != R
    if field == "real-complexL":
        A = A.real
    R = A
    Ldual = R @ np.linalg.inv(R.conj().T @ R)
    Z = rng.integers(-2, 3, (n, rank)).astype(float)
    if field in ("complex", "real-complexL"):
        Z = Z + 1j * rng.integers(-2, 3, (n, rank))
        if not np.abs(Z.imag).max():
            Z = Z + 1j
    Z = Z - R @ np.linalg.solve(R.conj().T @ R, R.conj().T @ Z)  # Z ⟂ R:  R† Z = 0 => Z† R = 0
    L = Ldual + Z
    if field == "complex-realL":
        # complex R with a real dual: R = X + iY with real L such that L^T X = 1, L^T Y = 0
        X = A.real
        while np.linalg.matrix_rank(X) < rank:
            X = X + np.eye(n)[:, :rank]
        Lr = X @ np.linalg.inv(X.T @ X)
        Y = A.imag - X @ (Lr.T @ A.imag)
        Y = Y - Lr @ np.linalg.solve(Lr.T @ Lr, Lr.T @ Y)
        R, L = X + 1j * Y, Lr.astype(float)
    assert np.allclose(L.conj().T @ R, np.eye(rank))
    return R, L


TEMPLATES = ["bare", "lo@x", "x@lo", "x@lo@x", "x+lo", "c*x", "x+xH", "sp@x", "x@sp", "x@x", "x@x@lo", "x@xH", "x.dot(x)", "x**2"]
OUTER = ["", "T", "H"]


def cases(tier, seed):
    ns = (4,) if tier == "quick" else (4, 6, 8)
    out = []
    for n in ns:
        for field in ("real", "complex", "real-complexL", "complex-realL"):
            for kind in ("orth", "orth_same", "biorth", "raw", "generic", "near"):
                if field in ("real-complexL", "complex-realL") and kind not in ("biorth", "generic"):
                    continue
                for rank in ((1, 2) if tier == "quick" else (1, 2, 3)):
                    chains = [()] + [(a,) for a in UNARY] + list(itertools.product(UNARY, repeat=2))
                    if tier != "quick":
                        chains += list(itertools.product(UNARY, repeat=3))
                    for chain in chains:
                        for tmpl in TEMPLATES:
                            for outer in OUTER:
                                if tmpl == "bare" and outer:
                                    continue
                                out.append(dict(n=n, field=field, kind=kind, rank=rank, chain=list(chain),
                                                template=tmpl, outer=outer, seed=seed))
    return out


def run_case(case):
    from scipy import sparse
    from scipy.sparse.linalg import LinearOperator, aslinearoperator

    from pymablock.linalg import ComplementProjector

    n, rank = case["n"], case["rank"]
    R, L = vector_sets(n, case["field"], case["kind"], rank, case["seed"])
    Lm = R if L is None else L
    D0 = np.eye(n) - R @ Lm.conj().T
    V = []
    ncmp = 0
    try:
        P = ComplementProjector(R) if L is None else ComplementProjector(R, L)
    except Exception as e:  # noqa: BLE001
        return dict(violations=[dict(what=f"construction fails: {type(e).__name__}: {e}", key=None)],
                    nontrivial=False, outcome="crash")
    rng = np.random.default_rng([case["seed"], 5, n])
    A = rng.integers(-3, 4, (n, n)) + 1j * rng.integers(-3, 4, (n, n))
    Asp = sparse.csr_array(np.triu(A.real))

    def fail(msg):
        V.append(dict(what=f"{msg} [{case['field']} {case['kind']} rank={rank} chain={case['chain']} {case['template']} outer={case['outer']}]", key=None))

    try:
        if P.shape != (n, n):
            fail(f"shape {P.shape}")
        want_dtype = np.result_type(R.dtype, Lm.dtype)
        if np.dtype(P.dtype) != want_dtype:
            fail(f"dtype {P.dtype} != {want_dtype}")
        op, D = P, D0
        for u in case["chain"]:
            op = UNARY[u][0](op)
            D = UNARY[u][1](D)
        # involutions denote the same operator
        t = case["template"]
        lo = aslinearoperator(A)
        if t == "bare":
            pass
        elif t == "lo@x":
            op, D = lo @ op, A @ D
        elif t == "x@lo":
            op, D = op @ lo, D @ A
        elif t == "x@lo@x":
            op, D = op @ lo @ op, D @ A @ D
        elif t == "x+lo":
            op, D = op + lo, D + A
        elif t == "c*x":
            op, D = (2 - 1j) * op, (2 - 1j) * D
        elif t == "x+xH":
            op, D = op + op.H, D + D.conj().T
        elif t == "sp@x":
            op, D = aslinearoperator(Asp) @ op, Asp.toarray() @ D
        elif t == "x@sp":
            op, D = op @ aslinearoperator(Asp), D @ Asp.toarray()
        elif t == "x@x":
            op, D = op @ op, D @ D
        elif t == "x@x@lo":
            op, D = op @ op @ lo, D @ D @ A
        elif t == "x@xH":
            op, D = op @ op.H, D @ D.conj().T
        elif t == "x.dot(x)":
            op, D = op.dot(op), D @ D
        elif t == "x**2":
            op, D = op**2, D @ D
        if case["outer"]:
            op = UNARY[case["outer"]][0](op)
            D = UNARY[case["outer"]][1](D)

        def cmp(name, got, want):
            nonlocal ncmp
            ncmp += 1
            got = np.asarray(got)
            if got.shape != want.shape:
                fail(f"{name}: shape {got.shape} vs {want.shape}")
            elif not np.allclose(got, want, rtol=1e-10, atol=1e-10 * max(1, np.abs(want).max())):
                fail(f"{name}: differs from dense 1 - R L† model by {np.abs(got - want).max():.3g}")

        xs = {
            "vec": rng.integers(-3, 4, n) + 1j * rng.integers(-3, 4, n) + R[:, 0],
            "col": (rng.integers(-3, 4, (n, 1)) + 1j * rng.integers(-3, 4, (n, 1))) + R[:, :1],
            "mat": (rng.integers(-3, 4, (n, 3)) + 1j * rng.integers(-3, 4, (n, 3))) + R[:, :1],
        }
        for nm, x in xs.items():
            cmp(f"op @ {nm}", op @ x, D @ x)
            if nm == "vec":
                cmp("matvec", op.matvec(x), D @ x)
                cmp("rmatvec", op.rmatvec(x), D.conj().T @ x)
            elif nm == "col":
                cmp("matvec(col)", op.matvec(x), D @ x)
            else:
                cmp("matmat", op.matmat(x), D @ x)
                cmp("rmatmat", op.rmatmat(x), D.conj().T @ x)
        ys = {
            "rowvec": rng.integers(-3, 4, n) + 1j * rng.integers(-3, 4, n) + Lm[:, 0].conj(),
            "rowmat": rng.integers(-3, 4, (3, n)) + 1j * rng.integers(-3, 4, (3, n)) + Lm[:, :1].conj().T,
        }
        for nm, y in ys.items():
            cmp(f"{nm} @ op", y @ op, y @ D)
        # real operands keep working too
        xr = rng.integers(-3, 4, (n, 2)).astype(float)
        cmp("op @ real", op @ xr, D @ xr)
        cmp("real @ op", xr.T @ op, xr.T @ D)
        if t == "bare":
            # library usage patterns: sparse in the middle, dense on the outside
            cmp("P @ csr @ V", op @ Asp @ xs["mat"], D @ Asp.toarray() @ xs["mat"])
            cmp("V† @ csr @ P", xs["mat"].conj().T @ Asp @ op, xs["mat"].conj().T @ Asp.toarray() @ D)
            # idempotency when L† R = 1
            if case["kind"] in ("orth", "orth_same", "biorth", "near"):
                cmp("P @ (P @ x)", op @ (op @ xs["mat"]), D @ xs["mat"])
            else:
                cmp("P @ (P @ x)", op @ (op @ xs["mat"]), D @ D @ xs["mat"])
            # double application of an involution gives the same operator back
            for u in ("T", "H", "C"):
                twice = UNARY[u][0](UNARY[u][0](op))
                cmp(f"{u}{u} @ x", twice @ xs["mat"], D @ xs["mat"])
            if not isinstance(op, LinearOperator):
                fail("not a LinearOperator")
            if op.shape != (n, n):
                fail(f"transformed shape {op.shape}")
    except Exception as e:  # noqa: BLE001
        import traceback

        fail(f"raises {type(e).__name__}: {str(e)[:160]} @ {traceback.format_exc().strip().splitlines()[-3][:120]}")
    return dict(violations=V[:3], nontrivial=ncmp > 0, outcome="ok" if not V else "violation",
                stats=dict(comparisons=ncmp), sample=case)
