"""C13 -- multi-parameter order bookkeeping: scale, merge, permute, pad, substitute."""
from __future__ import annotations

import itertools
from fractions import Fraction

import numpy as np

from .. import lattice
from ..core import describe
from ..exact import M, NP, orders_upto_total
from ..lattice import LibraryRejected, close, is_H0_zero_single_block, run_library_values

ID = "C13"
LEVEL = "exploration"
TECHNIQUE = "bounded-exhaustive enumeration of lattice configurations x parameter transformations (scale set, merge, permute, pad, lambda->lambda^p) with library-vs-library comparison, exact in sympy"
LEVEL_TEXT = (
    "For every structure of the (Hermitian and non-Hermitian) lattice and every transformation in a fixed finite set "
    "(scalings by {2,-1,1/2,3} of each perturbation, merging two parameters, all permutations of parameters, padding "
    "with a vanishing parameter, lambda -> lambda^2, lambda^3) the library is run on the original and on the "
    "transformed Hamiltonian and all three outputs are compared at every multi-order in the bound."
)
LEVEL_NOTE = "Trusted: the harness's index arithmetic for the expected relabelling; C03's independent reference shows the compared values themselves are right."
RULE = (
    "case = lattice structure x representation; per case 1 base run + every transformation; non-trivial = base U has a "
    "non-zero term of order >= 2; distinct = distinct configuration hash"
)
ASSUMPTIONS = ["generic integer values per structure", "float tolerance 1e-9 x scale; sympy exact"]


def cases(tier, seed):
    q = tier == "quick"
    out = []
    reprs = ("sympy", "dense", "csr")
    i = 0
    for herm in (True, False):
        for st in lattice.structures(3 if q else 4, hermitian=herm, patterns=("dense",) if q else None):
            N = sum(st["sizes"])
            rep = reprs[i % 3] if N <= 3 else ("dense", "csr")[i % 2]
            i += 1
            out.append(dict(st, repr=rep, vset=0, total=3 if st["k"] == 2 else 4, seed=seed, tier=tier))
            if st["k"] == 1 and st["support"] == [[1]] and N <= 3 and st["pattern"] == "dense":
                out.append(dict(st, repr=rep, vset=0, seed=seed, tier=tier, kind="list3"))
    # symbolic Hamiltonians H(x, y) with mixed monomials: permuting `symbols`, merging x = y = t, monomial bookkeeping
    for sizes, herm in (((2, 1), True), ((1, 1, 1), True), ((1, 2), False), ((1, 1), True)):
        for fd in (False, True):
            out.append(dict(kind="symbols", sizes=list(sizes), hermitian=herm, fd=fd, seed=seed, tier=tier))
    return out


def run_symbols(case):
    import sympy

    from pymablock import block_diagonalize
    from pymablock.series import one, zero

    sizes = case["sizes"]
    N = sum(sizes)
    nb = len(sizes)
    herm = case["hermitian"]
    rng = np.random.default_rng([case["seed"], N, nb, 131])

    def term():
        a = rng.integers(-3, 4, (N, N)) + 1j * rng.integers(-3, 4, (N, N))
        if herm:
            a = np.triu(a, 1) + np.triu(a, 1).conj().T + np.diag(np.diag(a).real)
        return sympy.Matrix(N, N, lambda i, j: sympy.Integer(int(a[i, j].real)) + sympy.I * sympy.Integer(int(a[i, j].imag)))

    x, y, t = sympy.symbols("x y t", real=True)
    H0 = sympy.diag(*[sympy.Integer(e) for e in lattice.POOL[:N]])
    terms = {(1, 0): term(), (0, 1): term(), (1, 1): term(), (1, 2): term(), (2, 0): term()}
    H = H0 + sum((x ** o[0] * y ** o[1] * m for o, m in terms.items()), sympy.zeros(N, N))
    kwargs = dict(subspace_indices=lattice.block_of(sizes), hermitian=herm)
    if case["fd"]:
        kwargs["fully_diagonalize"] = tuple(range(nb))
    total = 3
    orders2 = orders_upto_total(2, total)

    def get(s, idx):
        v = s[idx]
        i, j = idx[0], idx[1]
        if v is zero:
            return sympy.zeros(sizes[i], sizes[j])
        if v is one:
            return sympy.eye(sizes[i])
        return sympy.Matrix(v)

    V = []
    checks = 0
    xy = block_diagonalize(H, symbols=[x, y], **kwargs)
    yx = block_diagonalize(H, symbols=[y, x], **kwargs)
    merged = block_diagonalize(H.subs({x: t, y: t}), symbols=[t], **kwargs)
    dct = block_diagonalize({(0, 0): H0, **terms}, **kwargs)
    nontrivial = False
    for name, a, b, c, d in zip(("H_tilde", "U", "U_inv"), xy, yx, merged, dct):
        if tuple(str(q_) for q_ in a.dimension_names) != ("x", "y") or tuple(str(q_) for q_ in b.dimension_names) != ("y", "x"):
            V.append(f"{name}: dimension_names do not follow the order of `symbols`")
        for i in range(nb):
            for j in range(nb):
                acc = {}
                for n in orders2:
                    va = get(a, (i, j) + n)
                    vb = get(b, (i, j, n[1], n[0]))
                    vd = get(d, (i, j) + n)
                    checks += 3
                    if sympy.expand(va - vb) != sympy.zeros(*va.shape):
                        V.append(f"{name}[{i},{j},{list(n)}] with symbols=[x, y] differs from element [{n[1]}, {n[0]}] with symbols=[y, x]")
                    if sympy.expand(va - vd * x ** n[0] * y ** n[1]) != sympy.zeros(*va.shape):
                        V.append(f"{name}[{i},{j},{list(n)}] of the symbolic input is not x^{n[0]} y^{n[1]} times the order-tuple dict result")
                    acc[sum(n)] = acc.get(sum(n), sympy.zeros(*va.shape)) + va.subs({x: t, y: t})
                    if sum(n) >= 2 and vd != sympy.zeros(*vd.shape) and name == "U":
                        nontrivial = True
                for m_ in range(total + 1):
                    checks += 1
                    if sympy.expand(acc[m_] - get(c, (i, j, m_))) != sympy.zeros(sizes[i], sizes[j]):
                        V.append(f"{name}[{i},{j}]: order {m_} of H(t, t) is not the sum of the two-parameter orders with n_x + n_y = {m_}")
    return dict(violations=[dict(what=f"{w} [symbols sizes={sizes} hermitian={herm} fd={case['fd']}]", key=None) for w in V[:4]], nontrivial=nontrivial,
                outcome="symbols-" + ("ok" if not V else "violation"), stats=dict(relations_checked=checks),
                sample={k_: v_ for k_, v_ in case.items() if k_ != "seed"})


def run_list3(case):
    """Three first-order parameters given as a list [h0, h1, h2, h3]: parameter k of the result is
    list entry k (checked against the order-tuple dict and under every permutation of the list)."""
    from pymablock import block_diagonalize

    exact = case["repr"] == "sympy"
    cfg = dict(case, k=3, support=[[1, 0, 0], [0, 1, 0], [0, 0, 1]], total=2)
    values = lattice.gen_values(cfg, case["seed"])
    try:
        _, base, _ = run_library_values(cfg, values)
    except LibraryRejected:
        return dict(violations=[], nontrivial=False, outcome="rejected-by-design(H0=0)")
    Hd, kwargs = lattice.library_input(cfg, values)
    z = (0, 0, 0)
    keys = [(1, 0, 0), (0, 1, 0), (0, 0, 1)]
    V = []
    checks = 0
    scale = max(1.0, *(m.maxabs() for d in base.values() for m in d.values()))
    for perm in itertools.permutations(range(3)):
        lst = [Hd[z]] + [Hd[keys[p]] for p in perm]
        outs = block_diagonalize(lst, **kwargs)
        pos = lattice.positions(cfg)
        for n in orders_upto_total(3, 2):
            src = [0, 0, 0]
            for slot, p in enumerate(perm):
                src[p] = n[slot]  # list slot `slot` carries original parameter p
            for name, s_ in zip(("Ht", "U", "Uinv"), outs):
                got = lattice.assemble(s_, cfg["sizes"], n, exact, pos)
                checks += 1
                if not close(got, base[name][tuple(src)], scale * 10, exact):
                    V.append(f"list input with perturbations in order {perm}: {name}[{list(n)}] is not the dict-form result at {src}")
    nt = any(sum(n) >= 2 and m.maxabs() > 0 for n, m in base["U"].items())
    return dict(violations=[dict(what=w, key=None) for w in V[:4]], nontrivial=nt, outcome="list3-" + ("ok" if not V else "violation"),
                stats=dict(relations_checked=checks), sample=describe(case) | {"kind": "list3"})


def scaled(values, j, c):
    return {o: m * (c ** o[j]) for o, m in values.items()}


def run(cfg, values, k, total):
    c = dict(cfg, k=k, total=total)
    _, out, _ = run_library_values(c, values)
    return out


def run_case(case):
    if case.get("kind") == "list3":
        return run_list3(case)
    if case.get("kind") == "symbols":
        try:
            return run_symbols(case)
        except Exception as e:  # noqa: BLE001
            import traceback

            return dict(violations=[dict(what=f"symbols case raises {type(e).__name__}: {str(e)[:120]} @ {traceback.format_exc().strip().splitlines()[-2][:100]}", key=None)],
                        nontrivial=False, outcome="crash")
    exact = case["repr"] == "sympy"
    k = case["k"]
    total = case["total"]
    values = lattice.gen_values(case, case["seed"])
    try:
        base = run(case, values, k, total)
    except LibraryRejected as e:
        if is_H0_zero_single_block(case):
            return dict(violations=[], nontrivial=False, outcome="rejected-by-design(H0=0)")
        return dict(violations=[dict(what=f"well-posed input rejected: {e}", key=None)], nontrivial=False, outcome="rejected")
    except Exception as e:  # noqa: BLE001
        return dict(violations=[dict(what=f"crash {type(e).__name__}: {str(e)[:120]}", key=None)], nontrivial=False, outcome="crash")
    N = sum(case["sizes"])
    Mt = M if exact else NP
    V = []
    checks = 0
    orders = orders_upto_total(k, total)
    scale = max(1.0, *(m.maxabs() for d in base.values() for m in d.values()))

    def cmp(label, got, want):
        nonlocal checks
        checks += 1
        if not close(got, want, scale * 10, exact):
            V.append(label)

    def zero():
        return Mt.zeros(N)

    # (a) scaling of each perturbation
    scalings = [-1, Fraction(1, 2), Fraction(1, 8192)] if case.get("tier") == "quick" else [2, -1, Fraction(1, 2), 3, Fraction(1, 8192), Fraction(1, 2**20)]
    for j in range(k):
        for c in scalings:
            cf = float(c)
            if abs(cf) < 1e-2 and any(abs(cf) ** o[j] < 1e-9 for o in values):
                continue  # an input term whose entries are all below atol (1e-12) is dropped by design
            try:
                tr = run(case, scaled(values, j, cf), k, total)
            except Exception as e:  # noqa: BLE001
                V.append(f"scaled run (parameter {j} x {c}) fails: {type(e).__name__}: {str(e)[:80]}")
                continue
            for name in base:
                for n in orders:
                    # compare after undoing the scaling, so that the comparison is relative
                    cmp(f"scaling parameter {j} by {c}: {name}[{list(n)}] is not c^n_j times the original",
                        tr[name][n].scale((Fraction(1) / Fraction(c)) ** n[j] if exact else (1.0 / cf) ** n[j]), base[name][n])
    # (b) permutations of parameters
    if k >= 2:
        for perm in itertools.permutations(range(k)):
            if perm == tuple(range(k)):
                continue
            pv = {tuple(o[p] for p in perm): m for o, m in values.items()}
            tr = run(case, pv, k, total)
            for name in base:
                for n in orders:
                    cmp(f"permuting parameters {perm}: {name}[{list(n)}]", tr[name][tuple(n[p] for p in perm)], base[name][n])
        # (c) merging the two parameters into one
        mv = {}
        for o, m in values.items():
            mv[(sum(o),)] = mv.get((sum(o),), 0) + m
        tr = run(case, mv, 1, total)
        for name in base:
            for t in range(total + 1):
                acc = zero()
                for n in orders:
                    if sum(n) == t:
                        acc = acc + base[name][n]
                cmp(f"merging parameters: {name}[{t}] is not the sum over n1+n2={t}", tr[name][(t,)], acc)
    # (d) padding with a vanishing extra parameter (appended and prepended)
    for pos in ("last", "first"):
        pv = {((*o, 0) if pos == "last" else (0, *o)): m for o, m in values.items()}
        try:
            tr = run(case, pv, k + 1, total if k == 1 else 2)
        except Exception as e:  # noqa: BLE001
            V.append(f"padded run fails: {type(e).__name__}: {str(e)[:80]}")
            continue
        for name in base:
            for n2, m in tr[name].items():
                core_n = n2[:-1] if pos == "last" else n2[1:]
                extra = n2[-1] if pos == "last" else n2[0]
                if extra:
                    cmp(f"padding ({pos}): {name}[{list(n2)}] should vanish", m, zero())
                elif core_n in base[name]:
                    cmp(f"padding ({pos}): {name}[{list(n2)}] changed", m, base[name][core_n])
    # (e) lambda -> lambda^p
    if k == 1:
        for p in (2, 3):
            pv = {(o[0] * p,): m for o, m in values.items()}
            tot_p = min(total * p, 6)
            tr = run(case, pv, 1, tot_p)
            for name in base:
                for t in range(tot_p + 1):
                    want = base[name][(t // p,)] if t % p == 0 and (t // p,) in base[name] else zero()
                    if t % p == 0 and (t // p,) not in base[name]:
                        continue
                    cmp(f"lambda -> lambda^{p}: {name}[{t}]", tr[name][(t,)], want)
    nt = any(sum(n) >= 2 and m.maxabs() > 0 for n, m in base["U"].items())
    return dict(violations=[dict(what=w, key=None) for w in V[:4]], nontrivial=nt,
                outcome="ok" if not V else "violation", stats=dict(relations_checked=checks), sample=describe(case))
