"""C10 -- results independent of evaluation order/history; returned and input values not mutated."""
from __future__ import annotations

import itertools

import numpy as np

from .. import statespace, worlds

ID = "C10"
LEVEL = "model_checking"
TECHNIQUE = "explicit-state breadth-first search over request histories on the live computation (snapshot/restore of all caches), fresh-computation oracle, replay conformance"
LEVEL_TEXT = (
    "All request histories over a stated alphabet are explored up to closure of the reachable cache-state set or "
    "to a stated depth; in every transition the returned value must equal the one from a fresh computation that "
    "requested only that element, and no cached/handed-out/input value may change content. States are full cache "
    "contents of every series of the computation, so distinct deletion/recomputation paths are distinct states."
)
LEVEL_NOTE = (
    "Trusted: the harness's snapshot/restore of `_data` dicts (validated by replaying shortest histories on fresh "
    "computations: traces_validated_against_impl), md5 content fingerprints. Canonical-state argument: equal caches "
    "+ equal solver sets => equal futures because every eval is a pure function of inputs and caches."
)
RULE = (
    "per computation spec (Hermitian 2|2, 1|2|1, fully_diagonalize, masks, non-Hermitian, implicit, two parameters, "
    "sympy/csr/mixed sparse-dense values, second-quantised, two computations sharing input objects) BFS over all request sequences from the listed "
    "alphabet; a case is one (spec, alphabet, depth bound); non-trivial = more than 10 distinct states reached and "
    "at least one intermediate-term deletion observed along the way; plus, for the KPM solver (values reproducible only "
    "up to its convergence noise), every ordered pair of requests compared with a fresh computation relative to the measured noise floor"
)
ASSUMPTIONS = [
    "float results are compared bitwise with the fresh-computation value; a difference within 1e-10 relative is "
    "counted as rounding_level_differences and not as a violation",
    "alphabets are finite subsets of all possible requests (orders <= 3 resp. (1,1))",
]


def elem_letters(c, nb, orders, outs=(0, 1, 2), pairs=None):
    pairs = pairs or [(i, j) for i in range(nb) for j in range(nb)]
    return [("e", c, w, (i, j) + tuple(n)) for w in outs for (i, j) in pairs for n in orders]


def alphabet(name, spec):
    sizes = spec["sizes"]
    nb = len(sizes) + (1 if spec.get("implicit") else 0)
    k = spec["k"]
    o1 = [(1,), (2,), (3,)] if k == 1 else [(1, 0), (0, 1), (1, 1)]
    last = nb - 1
    if name == "core12":
        return (
            [("e", 0, 0, (0, 0) + n) for n in o1]
            + [("e", 0, 0, (last, last) + n) for n in o1]
            + [("e", 0, 1, (0, last) + n) for n in o1]
            + [("e", 0, 2, (last, 0) + n) for n in o1]
        )
    if name == "core8":
        o2 = o1[:2]
        return (
            [("e", 0, 0, (0, 0) + n) for n in o2]
            + [("e", 0, 0, (last, last) + n) for n in o2]
            + [("e", 0, 1, (0, last) + n) for n in o2]
            + [("e", 0, 2, (last, 0) + n) for n in o2]
        )
    if name == "pairs":  # every block pair of a three-block problem, in any order
        return [("e", 0, 1, (0, 1, 1)), ("e", 0, 1, (1, 2, 1)), ("e", 0, 1, (0, 2, 1)), ("e", 0, 2, (2, 0, 1)),
                ("e", 0, 0, (0, 0, 2)), ("e", 0, 0, (1, 1, 2)), ("e", 0, 0, (2, 2, 2)), ("e", 0, 1, (2, 1, 1))]
    if name == "full":
        return elem_letters(0, nb, o1)
    if name == "mixed":
        z = (0,) * (k - 1)
        return [
            ("e", 0, 0, (0, 0) + o1[1]),
            ("e", 0, 1, (0, last) + o1[2]),
            ("e", 0, 2, (last, 0) + o1[1]),
            ("s", 0, 0, (0, 0, ("sl", None, 3)) + z),
            ("s", 0, 1, (("sl", None, None), ("sl", None, None), 2) + z),
            ("s", 0, 0, (("li", 0, last), ("li", 0, last), 2) + z),
            ("v", 0, 0, (0, 0), (2,) + z),
            ("v", 0, 1, (("sl", None, None), last), (("sl", None, None), ("sl", 1, 3)) + z),
            ("i", 0, "X", (0, last) + o1[1]),
            ("i", 0, "B", (0, 0) + o1[1]),
            ("i", 0, "U'", (0, last) + o1[0]),
            ("i", 0, "H'_offdiag @ U'", (0, 0) + o1[1]),
            ("e", 0, 0, (last, last) + o1[2]),
            ("p", 0, (0, 0) + o1[1]),
            ("p", 0, (last, 0) + o1[0]),
        ]
    if name == "twin":  # two computations from the same input objects, interleaved
        base = [
            ("e", 0, (0, 0) + o1[1]), ("e", 0, (last, last) + o1[2]),
            ("e", 1, (0, last) + o1[2]), ("e", 2, (last, 0) + o1[1]),
            ("e", 1, (0, 0) + o1[1]),
        ]
        return [("e", c, w, idx) for c in (0, 1) for (_, w, idx) in base]
    raise ValueError(name)


def cases(tier, seed):
    q = tier == "quick"
    plan = [
        # spec, alphabet, depth bound (None = closure)
        ("H22", "core8", None),  # small alphabet explored to closure of the reachable state set
        ("N22", "core8", None),
        ("H22", "core12", 4 if q else None),
        ("H22", "full", 2 if q else 3),
        ("H22", "mixed", 3 if q else 4),
        ("H22", "twin", 3 if q else 4),
        ("SQ3", "core8", 2 if q else 3),
        ("H111shared", "pairs", 3 if q else 5),
        ("N111shared", "pairs", 3 if q else 4),
        ("H121", "core12", 4 if q else 6),
        ("H121", "mixed", 2 if q else 3),
        ("H22fd0", "core12", 4 if q else 6),
        ("H22fd0", "mixed", 2 if q else 3),
        ("H3mask", "full", 3 if q else 5),
        ("H21mask", "core12", 4 if q else 6),
        ("N22", "core12", 4 if q else None),
        ("N22", "full", 2 if q else 3),
        ("N21fd", "core12", 4 if q else 6),
        ("H22k2", "core12", 4 if q else 6),
        ("H22k2", "twin", 3),
        ("H3k2mixfd", "core12", 4 if q else 5),
        ("H21k2mixfd", "core12", 3 if q else 5),
        ("H22sym", "core8", 3 if q else 5),
        ("H22csr", "core12", 4 if q else 6),
        ("I23", "core12", 3 if q else 5),
        ("I23", "mixed", 2 if q else 3),
        ("I113", "core12", 3 if q else 4),
        ("NI23", "core12", 3 if q else 4),
    ]
    out = [dict(spec=s, alphabet=a, depth=d, tier=tier) for s, a, d in plan]
    # KPM solver: values are only reproducible up to the noise of its randomly started bounds estimate, so histories
    # are compared with a fresh computation relative to that measured noise floor (all ordered pairs of requests)
    out.append(dict(spec="KPM", alphabet="kpm-pairs", depth=2, tier=tier))
    return out


def run_kpm_pairs(case):
    import warnings

    from scipy import sparse

    from pymablock import block_diagonalize

    def build():
        rng = np.random.default_rng(7)
        n, a_dim = 30, 2
        energies = np.concatenate(([-2.0, -1.9], np.linspace(0.5, 3.0, n - a_dim)))
        h_0 = sparse.diags_array(energies).tocsr()

        def pert(scale):
            m = rng.standard_normal((n, n)) + 1j * rng.standard_normal((n, n))
            return sparse.csr_array(scale * (m + m.conj().T))

        H = [h_0, pert(3.0), pert(0.01)]
        return block_diagonalize(H, subspace_eigenvectors=[np.eye(n)[:, :a_dim]], direct_solver=False)

    requests = [(0, (0, 0, 2, 0)), (0, (0, 0, 0, 2)), (0, (0, 0, 1, 1)), (1, (0, 0, 2, 0)), (1, (0, 0, 0, 2))]
    V = []
    transitions = 0
    with warnings.catch_warnings():
        warnings.simplefilter("ignore")
        fresh, noise = {}, 0.0
        for r in requests:
            a = np.array(build()[r[0]][r[1]])
            b = np.array(build()[r[0]][r[1]])
            fresh[r] = a
            noise = max(noise, np.abs(a - b).max() / max(1e-300, np.abs(a).max()))
        for r1 in requests:
            for r2 in requests:
                if r1 == r2:
                    continue
                outs = build()
                outs[r1[0]][r1[1]]
                got = np.array(outs[r2[0]][r2[1]])
                transitions += 1
                err = np.abs(got - fresh[r2]).max() / max(1e-300, np.abs(fresh[r2]).max())
                if err > max(1e-7, 100 * noise):
                    V.append(f"KPM implicit mode: value of {r2} after {r1} differs from a fresh computation by {err:.1e} (noise floor between fresh computations {noise:.1e})")
    return dict(violations=[dict(what=w, key=None) for w in V[:4]], nontrivial=True, outcome="kpm-pairs",
                stats=dict(states=len(requests) + 1, transitions=transitions, traces_validated_against_impl=transitions, rounding_level_differences=0),
                sample=dict(spec="KPM", alphabet="kpm-pairs", noise_floor=noise))


def run_case(case):
    if case["spec"] == "KPM":
        return run_kpm_pairs(case)
    spec = worlds.SPECS[case["spec"]]
    copies = 2 if case["alphabet"] == "twin" else 1
    letters = alphabet(case["alphabet"], spec)
    if not spec["hermitian"]:
        # internal series names differ in the non-Hermitian algorithm
        letters = [l for l in letters if not (l[0] == "i" and l[2] not in ("X", "B", "U'", "H'_offdiag @ U'"))]

    def build():
        return worlds.BDWorld(spec, copies=copies)

    # fresh-computation oracle: value of each letter when it is the only request
    fresh = {}
    fresh_dense = {}
    for l in letters:
        w = build()
        try:
            v = w.get(l)
            fresh[l] = statespace.fingerprint(v)
            fresh_dense[l] = v
        except Exception as e:  # noqa: BLE001
            fresh[l] = f"EXC:{type(e).__name__}:{str(e)[:80]}"
    rounding = [0]
    deletions = [0]

    def request(world, letter):
        before = sum(len(o._data) for _, o in world.stores if hasattr(o, "_data"))
        fp = world.request(letter)
        after = sum(len(o._data) for _, o in world.stores if hasattr(o, "_data"))
        world._grew = after - before
        return fp

    def invariant(world, hist, letter, obs):
        out = []
        if obs != fresh[letter]:
            ok = False
            if not str(obs).startswith("EXC") and not str(fresh[letter]).startswith("EXC"):
                a = statespace.to_dense(world.handed[-1][0]) if not isinstance(world.handed[-1][0], np.ma.MaskedArray) else None
                b = statespace.to_dense(fresh_dense[letter]) if not isinstance(fresh_dense[letter], np.ma.MaskedArray) else None
                if a is not None and b is not None and a.shape == b.shape and a.dtype != object:
                    if np.allclose(a, b, rtol=1e-10, atol=1e-10 * max(1.0, float(np.abs(b).max()) if b.size else 1.0)):
                        ok = True
                        rounding[0] += 1
            if not ok:
                out.append(f"value of {letter} after history differs from fresh computation ({obs} vs {fresh[letter]})")
        if world.input_fp != worlds.input_fingerprint(world.H, world.kwargs):
            out.append("caller's input objects were modified")
        return out

    # validation budget: all states in small graphs, a stride in larger ones
    res = statespace.bfs(build, letters, request, invariant, depthcap=case["depth"],
                         validate_cap=120 if case["tier"] == "quick" else 3000)
    # handed-out values: check at the end of exploration on the BFS world is not possible
    # (restored states); mutation of cached values is checked on every transition instead.
    viol = [dict(what=f"{v['what']} [history={v['hist']} then {v['letter']}]", key=None, detail=v) for v in res["violations"][:10]]
    for h in res["conformance_errors"][:3]:
        viol.append(dict(what=f"snapshot/restore does not conform to a fresh replay of {h}", harness_error=True))
    return dict(
        violations=viol,
        nontrivial=res["states"] > 10,
        outcome=f"states~{len(str(res['states']))}digits,closed={res['complete']}",
        stats=dict(states=res["states"], transitions=res["transitions"],
                   traces_validated_against_impl=res["validated"],
                   rounding_level_differences=rounding[0]),
        sample=dict(spec=case["spec"], alphabet=[str(l) for l in letters[:6]], depth=case["depth"],
                    states=res["states"], transitions=res["transitions"], maxdepth=res["maxdepth"],
                    closed=res["complete"], sample_histories=[[str(x) for x in h] for h in res["sample_histories"][-2:]]),
    )
