"""C19 -- BlockSeries indexing follows numpy semantics with exactly-once evaluation."""
from __future__ import annotations

import itertools

import numpy as np

from .. import statespace
from ..statespace import World

ID = "C19"
LEVEL = "exploration"
TECHNIQUE = "bounded-exhaustive enumeration of index expressions (and BFS over request sequences with an eval call log) against numpy indexing of the dense object array"
LEVEL_TEXT = (
    "Every index tuple over per-axis alphabets (ints incl. negative finite, lists, forward slices) for every shape x "
    "number of infinite dimensions in the bound is applied to a real BlockSeries and to numpy on the dense object "
    "array of the same element values; finite-only indices are followed by a second index through the view; "
    "error classes must raise IndexError; all request sequences of length <= 3 over a 12-expression alphabet are "
    "explored with a call log (each element evaluated at most once); self-referential definitions must raise RuntimeError."
)
LEVEL_NOTE = "Trusted: numpy's own indexing on an object array as the model; element values are unique tokens so any misplaced element is visible."
RULE = (
    "case = (shape, n_infinite, index expression | view + second index | error-class expression | request-sequence "
    "BFS | recursion scenario); non-trivial = expression selects at least one element whose value is not the zero "
    "sentinel, or is an error-class/recursion case; distinct = distinct case"
)
ASSUMPTIONS = ["infinite-axis alphabets use orders < 4; dense model array has 4 entries per infinite axis"]

B = 4
FIN = [0, 1, -1, ("sl", None, None), ("sl", 0, 1), ("sl", 1, None), ("sl", None, None, 2), ("li", 0, 1), ("li", 1, 0), ("li", -1, 0)]
INF = [0, 2, ("sl", None, 3), ("sl", 1, 3), ("sl", 0, 3, 2), ("li", 0, 2), ("li", 2, 1), ("sl", None, 0), 3]
INF_ERR = [("sl", None, None), ("sl", -1, None), ("sl", -1, 2), -1, ("li", -1, 1), ("sl", 1, None), -2, ("sl", None, -1), ("sl", 0, -2)]


def dec(e):
    if isinstance(e, (tuple, list)) and e and e[0] == "sl":
        return slice(*e[1:])
    if isinstance(e, (tuple, list)) and e and e[0] == "li":
        return list(e[1:])
    return e


def token(index):
    return "v" + "_".join(str(int(i)) for i in index)


def is_zero_index(index):
    return sum(int(i) for i in index) % 3 == 2


def make_series(shape, ninf, log=None, prefix=""):
    from pymablock.series import BlockSeries, zero

    def ev(*index):
        if log is not None:
            log.append(tuple(int(i) for i in index))
        return zero if is_zero_index(index) else prefix + token(index)

    return BlockSeries(eval=ev, shape=shape, n_infinite=ninf, name="S")


def dense_model(shape, ninf):
    full = tuple(shape) + (B,) * ninf
    arr = np.empty(full, dtype=object)
    for idx in itertools.product(*(range(d) for d in full)):
        arr[idx] = None if is_zero_index(idx) else token(idx)
    return arr


def compare(res, want):
    """res from the library, want from numpy on the dense model (None = zero). '' if equal."""
    from pymablock.series import zero

    if not isinstance(want, np.ndarray):
        if want is None:
            return "" if res is zero else f"expected zero sentinel, got {res!r}"
        return "" if (isinstance(res, str) and res == want) else f"expected {want!r}, got {res!r}"
    if not isinstance(res, np.ma.MaskedArray):
        return f"expected a masked array of shape {want.shape}, got {type(res).__name__}"
    if res.shape != want.shape:
        return f"shape {res.shape} != numpy shape {want.shape}"
    mask = np.ma.getmaskarray(res)
    for idx in itertools.product(*(range(d) for d in want.shape)):
        w = want[idx]
        if w is None:
            if not mask[idx]:
                return f"absent element at {idx} is not masked"
        else:
            if mask[idx]:
                return f"element {w} at {idx} is masked"
            if res.data[idx] != w:
                return f"element at {idx} is {res.data[idx]!r}, numpy gives {w!r}"
    return ""


SHAPES = [(), (2,), (2, 2), (2, 3)]


def cases(tier, seed):
    out = []
    ninfs = (0, 1, 2)
    for shape in (SHAPES if tier == "quick" else SHAPES + [(3,), (3, 2)]):
        for ninf in ninfs:
            if not shape and not ninf:
                continue
            fin_alpha = FIN if (tier != "quick" or len(shape) < 2 or ninf < 2) else FIN[:7] + FIN[8:9]
            inf_alpha = INF if (tier != "quick" or ninf < 2 or len(shape) < 2) else INF[:7]
            exprs = list(itertools.product(*([fin_alpha] * len(shape) + [inf_alpha] * ninf)))
            # group expressions into chunks so that process overhead stays small
            for i in range(0, len(exprs), 200):
                out.append(dict(kind="expr", shape=list(shape), ninf=ninf, exprs=[list(e) for e in exprs[i : i + 200]]))
            if ninf:
                errs = []
                for pos in range(ninf):
                    for bad in INF_ERR:
                        e = [0] * len(shape) + [1] * ninf
                        e[len(shape) + pos] = bad
                        errs.append(e)
                        if shape:
                            e2 = list(e)
                            e2[0] = ("sl", None, None)
                            errs.append(e2)
                errs.append([0] * (len(shape) + ninf + 1))  # wrong arity
                if len(shape) + ninf > 1 and not (len(shape) == 1 and ninf == 1):
                    errs.append([0] * (len(shape) + ninf - 1))
                out.append(dict(kind="error", shape=list(shape), ninf=ninf, exprs=errs))
            if shape and ninf:
                views = list(itertools.product(*([FIN] * len(shape))))
                out.append(dict(kind="view", shape=list(shape), ninf=ninf, views=[list(v) for v in views]))
    for shape, ninf in (((2,), 1), ((2, 2), 1), ((), 2)):
        out.append(dict(kind="bfs", shape=list(shape), ninf=ninf, depth=3 if tier == "quick" else 4))
    out.append(dict(kind="recursion"))
    out.append(dict(kind="dependent"))
    out.append(dict(kind="api"))
    return out


def tup(e):
    return tuple(tuple(x) if isinstance(x, list) else x for x in e)


def run_case(case):
    kind = case["kind"]
    V = []
    n = 0
    nontrivial = False
    if kind in ("expr", "error", "view"):
        shape, ninf = tuple(case["shape"]), case["ninf"]
        model = dense_model(shape, ninf)
    if kind == "expr":
        for e in case["exprs"]:
            item = tuple(dec(tup([x])[0]) for x in e)
            s = make_series(shape, ninf)
            try:
                want = model[item]
            except IndexError:
                continue
            try:
                got = s[item if len(item) != 1 else item[0]]
            except Exception as ex:  # noqa: BLE001
                V.append(f"{shape}x{ninf} index {e}: raises {type(ex).__name__}: {ex} but numpy returns shape {getattr(want, 'shape', ())}")
                continue
            n += 1
            msg = compare(got, want)
            if msg:
                V.append(f"{shape}x{ninf} index {e}: {msg}")
            if isinstance(want, np.ndarray):
                nontrivial |= any(x is not None for x in want.ravel())
            else:
                nontrivial |= want is not None
    elif kind == "error":
        for e in case["exprs"]:
            item = tuple(dec(tup([x])[0]) for x in e)
            s = make_series(shape, ninf)
            n += 1
            nontrivial = True
            try:
                got = s[item]
            except IndexError:
                continue
            except Exception as ex:  # noqa: BLE001
                V.append(f"{shape}x{ninf} index {e}: raises {type(ex).__name__} ({ex}) instead of IndexError")
                continue
            if hasattr(got, "n_infinite"):
                continue  # finite-only arity gives a view
            V.append(f"{shape}x{ninf} index {e}: returns {str(got)[:60]!r} instead of raising IndexError")
    elif kind == "view":
        for vexpr in case["views"]:
            fin = tuple(dec(tup([x])[0]) for x in vexpr)
            sub = model[fin]
            vshape = sub.shape[: sub.ndim - ninf]
            for inf in itertools.product(*([INF[:6]] * ninf)):
                for lead in ("slice", "zero"):
                    if lead == "zero" and any(d == 0 for d in vshape):
                        continue
                    first = tuple(slice(None) if lead == "slice" else 0 for _ in vshape)
                    second = first + tuple(dec(x) for x in inf)
                    s = make_series(shape, ninf)
                    try:
                        want = sub[second]
                    except IndexError:
                        continue
                    # another series of the same shape (different element values) is viewed in the same way first:
                    # views and elements of distinct series must not get mixed up
                    decoy = make_series(shape, ninf, prefix="other-")
                    try:
                        dview = decoy[fin]
                        dview[second if len(second) != 1 else second[0]]
                    except Exception:  # noqa: BLE001
                        pass
                    try:
                        view = s[fin]
                        if view.shape != vshape:
                            V.append(f"{shape}x{ninf} view {vexpr}: view shape {view.shape} != numpy {vshape}")
                            continue
                        got = view[second if len(second) != 1 else second[0]]
                    except Exception as ex:  # noqa: BLE001
                        V.append(f"{shape}x{ninf} view {vexpr} then {inf}/{lead}: raises {type(ex).__name__}: {ex}")
                        continue
                    n += 1
                    msg = compare(got, want)
                    if msg:
                        V.append(f"{shape}x{ninf} view {vexpr} then {inf}/{lead}: {msg}")
                    nontrivial = True
    elif kind == "bfs":
        return run_bfs(case)
    elif kind == "recursion":
        return run_recursion()
    elif kind == "dependent":
        return run_dependent()
    elif kind == "api":
        return run_api()
    return dict(violations=[dict(what=w, key=None) for w in V[:5]], nontrivial=nontrivial,
                outcome="ok" if not V else "violation", stats=dict(index_expressions=n),
                sample=dict(kind=kind, shape=case.get("shape"), ninf=case.get("ninf"),
                            first=(case.get("exprs") or case.get("views"))[:2]))


def run_bfs(case):
    shape, ninf = tuple(case["shape"]), case["ninf"]
    model = dense_model(shape, ninf)
    fa = [0, -1, ("sl", None, None), ("li", 1, 0)]
    ia = [0, 2, ("sl", None, 3), ("li", 2, 1)]
    letters = list(itertools.product(*([fa] * len(shape) + [ia] * ninf)))[:12] if len(shape) + ninf > 1 else list(itertools.product(ia))
    if len(shape) == 2:
        letters = [l for i, l in enumerate(itertools.product(*([fa] * 2 + [ia]))) if i % 5 == 0][:12]

    class W(World):
        def __init__(self):
            self.log = []
            self.series = make_series(shape, ninf, self.log)
            super().__init__([self.series], extra_stores=[("log", self.log)])

    def request(world, letter):
        item = tuple(dec(x) for x in letter)
        got = world.series[item if len(item) != 1 else item[0]]
        world._msg = compare(got, model[item])
        return statespace.fingerprint(got)

    def invariant(world, hist, letter, obs):
        out = []
        if world._msg:
            out.append(f"after history: {world._msg}")
        if len(set(world.log)) != len(world.log):
            out.append("an element was evaluated more than once while cached")
        return out

    res = statespace.bfs(W, letters, request, invariant, depthcap=case["depth"], validate_cap=60)
    viol = [dict(what=f"{v['what']} [shape={shape} ninf={ninf} history={v['hist']} then {v['letter']}]", key=None) for v in res["violations"][:5]]
    for h in res["conformance_errors"][:2]:
        viol.append(dict(what=f"snapshot/restore nonconformance {h}", harness_error=True))
    return dict(violations=viol, nontrivial=res["states"] > 5, outcome="bfs",
                stats=dict(states=res["states"], transitions=res["transitions"], traces_validated_against_impl=res["validated"]),
                sample=dict(kind="bfs", shape=list(shape), ninf=ninf, letters=[str(l) for l in letters[:4]], states=res["states"]))


def run_recursion():
    """Self-referential definitions must raise RuntimeError (never recurse forever)."""
    import sys

    from pymablock.series import BlockSeries

    V = []
    scenarios = 0

    def expect_runtime(fn, label):
        nonlocal scenarios
        scenarios += 1
        old = sys.getrecursionlimit()
        sys.setrecursionlimit(3000)
        try:
            fn()
        except RecursionError:
            V.append(f"{label}: RecursionError instead of RuntimeError")
        except RuntimeError:
            pass
        except Exception as exc:  # noqa: BLE001
            V.append(f"{label}: {type(exc).__name__} instead of RuntimeError")
        else:
            V.append(f"{label}: no exception")
        finally:
            sys.setrecursionlimit(old)

    # direct self reference, scalar and sliced
    a = BlockSeries(shape=(), n_infinite=1, name="a")
    a.eval = lambda n: a[n]
    expect_runtime(lambda: a[2], "a[n] := a[n]")
    expect_runtime(lambda: a[:3], "a[n] := a[n], sliced request")
    b = BlockSeries(shape=(), n_infinite=1, name="b")
    b.eval = lambda n: b[: n + 1]
    expect_runtime(lambda: b[1], "b[n] := b[:n+1]")
    # mutual recursion
    c = BlockSeries(shape=(), n_infinite=1, name="c")
    d = BlockSeries(shape=(), n_infinite=1, name="d")
    c.eval = lambda n: d[n]
    d.eval = lambda n: c[n]
    expect_runtime(lambda: c[1], "c[n] := d[n], d[n] := c[n]")
    # block series, via a view
    e = BlockSeries(shape=(2,), n_infinite=1, name="e")
    e.eval = lambda i, n: e[1 - i][n] if i == 0 else e[0, n]
    expect_runtime(lambda: e[0, 1], "e[0,n] := e[1][n], e[1,n] := e[0,n]")
    # self reference through a Cauchy product: A_n = c + (A @ B)_n refers to itself as soon as B has a
    # zeroth-order term; every position of the self-referring factor and block/scalar shapes
    from operator import mul

    from pymablock.series import cauchy_dot_product

    prods = []
    for shape, val in (((1, 1), lambda *i: 2.0), ((2, 2), lambda *i: np.array([[1.0, 2.0], [0.5, 1.0]]) + sum(i))):
        op = mul if shape == (1, 1) else np.matmul
        for position in ("left", "right", "middle"):
            for b0 in (True, False):
                nblk = shape[0]
                bdata = {(i, j, n): val(i, j, n) for i in range(nblk) for j in range(nblk) for n in ((0, 1) if b0 else (1, 2))}
                B = BlockSeries(data=bdata, shape=shape, n_infinite=1, name="B")
                A = BlockSeries(shape=shape, n_infinite=1, name="A",
                                data={(i, j, 0): val(i, j, 7) for i in range(nblk) for j in range(nblk)})
                factors = {"left": (A, B), "right": (B, A), "middle": (B, A, B)}[position]
                AB = cauchy_dot_product(*factors, operator=op)
                A.eval = (lambda AB, val: lambda *index: AB[index] + val(*index))(AB, val)  # the zero sentinel only adds from the left
                prods.append(A)
                label = f"A[n] := c + ({' @ '.join(f.name for f in factors)})[n], shape {shape}, B_0 {'!= 0' if b0 else '== 0'}"
                if b0 and position != "middle":
                    expect_runtime(lambda A=A, nblk=nblk: A[0, nblk - 1, 2], label)
                elif b0:
                    expect_runtime(lambda A=A, nblk=nblk: A[nblk - 1, 0, 1], label)
                else:
                    # a proper recurrence (A_n only needs lower orders of A): must be answered, and equal the model
                    scenarios += 1
                    try:
                        got = [A[0, 0, n] for n in range(4)]
                    except Exception as exc:  # noqa: BLE001
                        V.append(f"{label}: well-founded recurrence raises {type(exc).__name__}")
                        continue
                    dense = {}

                    def ref(i, j, n, dense=dense, nblk=nblk, val=val, op=op, position=position, bdata=bdata):
                        if (i, j, n) in dense:
                            return dense[(i, j, n)]
                        if n == 0:
                            v = val(i, j, 7)
                        else:
                            v = val(i, j, n)
                            Bv = lambda i, j, n: bdata.get((i, j, n))  # noqa: E731
                            if position in ("left", "right"):
                                for k_ in range(nblk):
                                    for m_ in range(n + 1):
                                        if position == "left":
                                            y = Bv(k_, j, n - m_)
                                            if y is not None:
                                                v = v + op(ref(i, k_, m_), y)
                                        else:
                                            y = Bv(i, k_, n - m_)
                                            if y is not None:
                                                v = v + op(y, ref(k_, j, m_))
                            else:
                                for k1 in range(nblk):
                                    for k2 in range(nblk):
                                        for m1 in range(n + 1):
                                            for m2 in range(n + 1 - m1):
                                                y1, y2 = Bv(i, k1, m1), Bv(k2, j, n - m1 - m2)
                                                if y1 is not None and y2 is not None:
                                                    v = v + op(op(y1, ref(k1, k2, m2)), y2)
                        dense[(i, j, n)] = v
                        return v

                    want = [ref(0, 0, n) for n in range(4)]
                    if not all(np.allclose(g, w_) for g, w_ in zip(got, want)):
                        V.append(f"{label}: well-founded recurrence through a product gives wrong values")
    # after the failed evaluation the series is usable again and no marker is left
    from pymablock.series import PENDING

    for s in prods:
        if any(v is PENDING for v in s._data.values()):
            V.append(f"PENDING left in {s.name} after recursion error through a product")

    for s in (a, b, c, d, e):
        if any(v is PENDING for v in s._data.values()):
            V.append(f"PENDING left in {s.name} after recursion error")
    # a well-founded recursive definition still works (fibonacci)
    f = BlockSeries(shape=(), n_infinite=1, data={(0,): 1, (1,): 1}, name="f")
    f.eval = lambda n: f[n - 1] + f[n - 2]
    if f[10] != 89:
        V.append("well-founded recursion gives a wrong value")
    return dict(violations=[dict(what=w, key=None) for w in V], nontrivial=True, outcome="recursion",
                stats=dict(recursion_scenarios=scenarios), sample=dict(kind="recursion", scenarios=scenarios))


def run_dependent():
    """Series whose elements depend on other elements of the same series (adjoint-style fill,
    backward recurrence): multi-element requests must evaluate every element at most once and
    return the same values as element-by-element requests on a fresh series."""
    from pymablock.series import BlockSeries

    V = []
    n_req = 0

    def herm_series(log):
        s = BlockSeries(shape=(2, 2), n_infinite=1, name="Hd")

        def ev(i, j, n):
            log.append((int(i), int(j), int(n)))
            if i < j:  # upper blocks are defined through the lower ones
                return "adj(" + s[j, i, n] + ")"
            return f"b{i}{j}{n}"

        s.eval = ev
        return s

    def back_series(log, top=4):
        s = BlockSeries(shape=(), n_infinite=1, name="y")

        def ev(n):
            log.append((int(n),))
            if n >= top:
                return f"y{n}"
            return f"f({s[n + 1]})"

        s.eval = ev
        return s

    def model_h(i, j, n):
        return f"adj(b{j}{i}{n})" if i < j else f"b{i}{j}{n}"

    def model_y(n, top=4):
        return f"y{n}" if n >= top else f"f({model_y(n + 1, top)})"

    requests_h = [(slice(None), slice(None), 1), ([0, 1], [1, 0], 2), (0, slice(None), slice(0, 3)), (slice(None), 1, [2, 0]),
                  (slice(None), slice(None), slice(0, 2))]
    for seq in itertools.permutations(range(len(requests_h)), 2):
        log = []
        s = herm_series(log)
        for r in seq:
            item = requests_h[r]
            got = s[item]
            n_req += 1
            dense = np.empty((2, 2, 3), dtype=object)
            for idx in itertools.product(range(2), range(2), range(3)):
                dense[idx] = model_h(*idx)
            want = dense[item]
            if got.shape != want.shape or any(g != w for g, w in zip(np.ma.getdata(got).ravel(), want.ravel())):
                V.append(f"adjoint-filled series, request {item}: values differ from the dense model")
        dup = [k for k in set(log) if log.count(k) > 1]
        if dup:
            V.append(f"adjoint-filled series, requests {[requests_h[r] for r in seq]}: elements evaluated more than once: {sorted(dup)[:3]}")
    for item in (slice(0, 5), [0, 2, 4], slice(1, 4), [3, 0]):
        for first in (None, 2):
            log = []
            s = back_series(log)
            if first is not None:
                s[first]
            got = s[item]
            n_req += 1
            want = np.array([model_y(n) for n in range(5)], dtype=object)[item]
            if list(np.ma.getdata(got).ravel()) != list(want.ravel()):
                V.append(f"backward recurrence, request {item}: values differ")
            dup = [k for k in set(log) if log.count(k) > 1]
            if dup:
                V.append(f"backward recurrence, request {item} (after {first}): elements evaluated more than once: {sorted(dup)[:3]}")
    return dict(violations=[dict(what=w, key=None) for w in V[:4]], nontrivial=True, outcome="dependent",
                stats=dict(index_expressions=n_req), sample=dict(kind="dependent", requests=[str(r) for r in requests_h[:3]]))


def run_api():
    """Initial data, membership, pop and re-evaluation, series without infinite dimensions."""
    from pymablock.series import BlockSeries, zero

    V = []
    n = 0
    for shape, ninf in (((2,), 1), ((2, 2), 1), ((), 2), ((3,), 0), ((2, 2), 0)):
        full = tuple(shape) + (3,) * ninf
        all_idx = list(itertools.product(*(range(d) for d in full)))
        given = {idx: ("d" + token(idx)) for t, idx in enumerate(all_idx) if t % 3 == 0}
        given.update({idx: zero for t, idx in enumerate(all_idx) if t % 7 == 1})
        log = []

        def ev(*index, log=log):
            log.append(tuple(int(i) for i in index))
            return zero if is_zero_index(index) else token(index)

        data_in = dict(given)
        s = BlockSeries(eval=ev, data=data_in, shape=shape, n_infinite=ninf, name="S")
        # membership before any evaluation: everything except declared zeros counts as present
        for idx in all_idx:
            n += 1
            want = not (idx in given and given[idx] is zero)
            if (idx in s) != want:
                V.append(f"shape={shape} ninf={ninf}: `{idx} in series` is {idx in s} before evaluation (declared data: {given.get(idx, 'none')!r})")
        for idx in all_idx:
            got = s[idx] if len(idx) > 1 else s[idx[0]]
            n += 1
            want = given[idx] if idx in given else (zero if is_zero_index(idx) else token(idx))
            if got is not want and got != want:
                V.append(f"shape={shape} ninf={ninf}: element {idx} is {got!r}, expected {want!r}")
            if idx in given and idx in log:
                V.append(f"shape={shape} ninf={ninf}: element {idx} given as initial data was evaluated")
        if len(set(log)) != len(log):
            V.append(f"shape={shape} ninf={ninf}: an element was evaluated twice")
        if data_in != given:
            V.append("the caller's data dictionary was modified")
        # the same initial data shared by a data-only series (no eval), a series whose eval is attached later,
        # and a fresh series: requests to one must not change the caller's dictionary nor the other series
        shared = dict(given)
        only = BlockSeries(data=shared, shape=shape, n_infinite=ninf, name="only")
        later = BlockSeries(data=shared, shape=shape, n_infinite=ninf, name="later")
        later.eval = lambda *index: zero if is_zero_index(index) else "L" + token(index)
        for idx in all_idx:
            n += 1
            got = only[idx] if len(idx) > 1 else only[idx[0]]
            want = given.get(idx, zero)
            if got is not want and got != want:
                V.append(f"shape={shape} ninf={ninf}: data-only series element {idx} is {got!r}, expected {want!r}")
        for idx in all_idx:
            n += 1
            got = later[idx] if len(idx) > 1 else later[idx[0]]
            want = given[idx] if idx in given else (zero if is_zero_index(idx) else "L" + token(idx))
            if got is not want and got != want:
                V.append(f"shape={shape} ninf={ninf}: element {idx} of a series sharing its initial data with another series is {got!r}, expected {want!r}")
        if shared != given:
            V.append(f"shape={shape} ninf={ninf}: the caller's data dictionary was modified by a series constructed without eval")
        third = BlockSeries(eval=ev, data=shared, shape=shape, n_infinite=ninf, name="third")
        for idx in all_idx[:6]:
            got = third[idx] if len(idx) > 1 else third[idx[0]]
            want = given[idx] if idx in given else (zero if is_zero_index(idx) else token(idx))
            if got is not want and got != want:
                V.append(f"shape={shape} ninf={ninf}: a later series built from the same data returns {got!r} for {idx}, expected {want!r}")
        # membership after evaluation: only known-zero elements are absent
        for idx in all_idx:
            want = not ((idx in given and given[idx] is zero) or (idx not in given and is_zero_index(idx)))
            if (idx in s) != want:
                V.append(f"shape={shape} ninf={ninf}: `{idx} in series` is {idx in s} after evaluation")
        # pop: returns the cached value, removes it, a later request evaluates again exactly once
        probe = next((i for i in all_idx if i not in given and not is_zero_index(i)), None)
        if probe is None:
            continue
        before = len(log)
        if s.pop(probe, None) != token(probe):
            V.append("pop did not return the cached value")
        if s.pop(probe, "default") != "default":
            V.append("pop of a missing element did not return the default")
        again = s[probe] if len(probe) > 1 else s[probe[0]]
        if again != token(probe) or log[before:] != [probe]:
            V.append(f"after pop the element {probe} was not re-evaluated exactly once (log {log[before:]})")
        if s.shape != tuple(shape) or s.n_infinite != ninf or len(s.dimension_names) != ninf:
            V.append("shape / n_infinite / dimension_names inconsistent")
    return dict(violations=[dict(what=w, key=None) for w in V[:4]], nontrivial=True, outcome="api",
                stats=dict(index_expressions=n), sample=dict(kind="api"))
