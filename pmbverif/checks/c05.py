"""C05 -- non-Hermitian mode: U_inv inverts U, U_inv H U = H_tilde, eliminated part zero, gauge."""
from __future__ import annotations

from .. import lattice, refsolve
from ..core import describe, run_cfg
from ..exact import orders_upto_total, to_np
from ..lattice import close, eliminate_mask

ID = "C05"
LEVEL = "exploration"
TECHNIQUE = "bounded-exhaustive enumeration of the non-Hermitian configuration lattice + exact recomputation of the identities + independent exact reference solver (and a literal-recurrence reference that pins known finding K1)"
LEVEL_TEXT = (
    "Every structure of the non-Hermitian lattice (layouts x degeneracy patterns incl. complex energies x supports x "
    "zero patterns x fully_diagonalize subsets x every asymmetric mask x representations x explicit (R,L) bases) is "
    "run through block_diagonalize(hermitian=False); U_inv U = U U_inv = 1, U_inv H U against H_tilde / zero, the gauge "
    "and agreement with an independent exact solver are decided at every order in the bound; Hermitian inputs are "
    "additionally compared with the Hermitian reference solution."
)
LEVEL_NOTE = (
    "Trusted: pmbverif/exact.py, pmbverif/refsolve.py. Known finding K1 is recognised only when the library output "
    "equals the literal documented recurrence on a configuration inside the K1 class; everything else is reported."
)
RULE = (
    "complete enumeration of the non-Hermitian lattice as in C01 with arbitrary complex (non-Hermitian) integer "
    "perturbations, complex unperturbed energies, all asymmetric masks on each block in turn, Hermitian-valued inputs, "
    "and (R,L) basis pairs; non-trivial as in C01; distinct = distinct configuration hash"
)
ASSUMPTIONS = [
    "generic Gaussian-integer values per structure (see C01)",
    "K1 class = non-Hermitian mode and some kept off-diagonal element joins two different unperturbed energies",
]


def cases(tier, seed):
    out = []
    q = tier == "quick"
    Nmax = 3 if q else 4
    reprs = ("sympy", "dense", "csr")
    for st in lattice.structures(Nmax, hermitian=False, ks=(1, 2) if not q else (1,)):
        for rep in reprs:
            if rep == "sympy" and sum(st["sizes"]) == 4:
                continue
            out.append(dict(st, repr=rep, vset=0, total=4 if st["k"] == 1 else 3))
    if q:
        for st in lattice.structures(3, hermitian=False, ks=(2,), patterns=("dense",)):
            out.append(dict(st, repr="dense", vset=0, total=3))
    # complex unperturbed energies
    for st in lattice.structures(3, hermitian=False, ks=(1,), complex_levels=True, patterns=("dense", "offdiag")):
        for rep in ("sympy", "dense"):
            out.append(dict(st, repr=rep, vset=1, total=4))
    # every asymmetric mask
    for st in lattice.mask_structures(3 if q else 4, hermitian=False):
        if not q or sum(st["sizes"]) <= 3:
            for rep in ("sympy", "dense") if sum(st["sizes"]) <= 3 else ("dense",):
                out.append(dict(st, repr=rep, vset=0, total=4 if q else 4))
    # Hermitian-valued input in non-Hermitian mode: must coincide with the Hermitian solution
    for st in lattice.structures(3, hermitian=True, ks=(1,), patterns=("dense",)):
        out.append(dict(st, hermitian=False, herm_values=True, repr="sympy", vset=0, total=4))
        out.append(dict(st, hermitian=False, herm_values=True, repr="dense", vset=1, total=4))
    # explicit biorthogonal (R, L) bases
    for st in lattice.structures(3, hermitian=False, ks=(1,), patterns=("dense",), supports={1: [[(1,)], [(1,), (2,)]]}):
        if st["fd"]:
            continue
        for rep in ("sympy", "dense"):
            out.append(dict(st, repr=rep, vset=0, total=3, basis="RL"))
            out.append(dict(st, repr=rep, vset=1, total=3, basis="RL", lab_herm=True))
    for i, c in enumerate(out):
        c["seed"] = seed
        c["req"] = "asc" if i % 2 == 0 else "desc"
    return out


def in_k1_class(cfg):
    R = eliminate_mask(cfg)
    E = [tuple(e) for e in cfg["E"]]
    N = len(E)
    return any((not R[i][j]) and i != j and E[i] != E[j] for i in range(N) for j in range(N))


SURVIVES_K1 = ("(Uinv U)", "(U Uinv)", "gauge violated", "H_tilde[", "non-finite", "crashes", "rejected")


def run_case(case):
    res = run_cfg(dict(case, hermitian=False), case["seed"], {"C05"}, case.get("req", "asc"))
    V = res["violations"]
    if case.get("herm_values") and "_out" in res:
        hcfg = dict(case, hermitian=True)
        _, hout, _ = lattice.run_library(hcfg, case["seed"])
        exact = case["repr"] == "sympy"
        for name in ("U", "Uinv", "Ht"):
            for n, m in hout[name].items():
                if not close(res["_out"][name][n], m, max(1.0, m.maxabs()) ** 2, exact):
                    V.append(dict(what=f"{name}[{list(n)}] of the non-Hermitian mode differs from the Hermitian mode on Hermitian input", key=None, detail=None))
    if V and "_out" in res and in_k1_class(case):
        orders = orders_upto_total(case["k"], case["total"])
        E = [complex(e[0], e[1]) for e in case["E"]]
        lit = dict(zip(("U", "Uinv", "Ht"), refsolve.nonhermitian_literal(res["_Hx"], E, res["_R"], orders)))
        exact = case["repr"] == "sympy"
        same = True
        for name in ("U", "Uinv", "Ht"):
            for n in orders:
                ref = lit[name][n] if exact else to_np(lit[name][n])
                scale = max(1.0, ref.maxabs()) ** 2
                if not close(res["_out"][name][n], ref, scale, exact):
                    same = False
        if same:
            keep = [v for v in V if any(t in v["what"] for t in SURVIVES_K1) and "differs from H_tilde" not in v["what"]]
            # H_tilde must still vanish on eliminated elements and the inverse/gauge relations hold
            keep = [v for v in keep if not v["what"].startswith("H_tilde[") or "eliminated" in v["what"]]
            V = keep + [dict(what=f"K1 signature: library equals the literal documented recurrence, which differs from the true solution ({len(V) - len(keep)} identity failures)", key="K1", detail=None)]
    out = {k: v for k, v in res.items() if not k.startswith("_")}
    out["violations"] = V
    out["sample"] = describe(case) | {"herm_values": case.get("herm_values", False), "basis": case.get("basis")}
    if any(v.get("key") == "K1" for v in V):
        out["outcome"] = "K1/" + ("nontrivial" if res.get("nontrivial") else "trivial")
    return out
