"""Per-configuration oracles on the lattice: run the library once, evaluate the identities of
C01 (U†HU), C02 (unitarity/adjoint/Hermiticity), C03 (gauge + reference agreement),
C05 (non-Hermitian analogues, with classification of known finding K1)."""
from __future__ import annotations

import numpy as np

from . import refsolve
from .exact import M, NP, cauchy, orders_upto_total, splits2, splits3, to_np
from .lattice import (
    LibraryRejected,
    close,
    eliminate_mask,
    exact_H,
    is_H0_zero_single_block,
    offsets,
    run_library,
)


def _viol(what, key=None, **detail):
    return {"what": what, "key": key, "detail": detail}


def sizes_scale(*mats):
    return max([1.0] + [m.maxabs() for m in mats])


def nontrivial(cfg, values, out):
    """Perturbation couples at least one eliminated pair and some output is non-zero at an
    order >= 2."""
    R = eliminate_mask(cfg)
    N = len(R)
    couples = any(
        R[i][j] and abs(m[i, j]) > 0 for m in values.values() for i in range(N) for j in range(N)
    )
    if not couples:
        return False
    for n, m in out["U"].items():
        if sum(n) >= 2 and m.maxabs() > 0:
            return True
    return False


def run_cfg(cfg, seed, props, request_order="asc"):
    """Returns dict(violations=[...], nontrivial=bool, outcome=str)."""
    exact = cfg["repr"] == "sympy"
    herm = cfg["hermitian"]
    R = eliminate_mask(cfg)
    N = len(R)
    S = [[not R[i][j] for j in range(N)] for i in range(N)]
    try:
        values, out, _series = run_library(cfg, seed, request_order)
    except LibraryRejected as e:
        if is_H0_zero_single_block(cfg):
            return dict(violations=[], nontrivial=False, outcome="rejected-by-design(H0=0)")
        return dict(
            violations=[_viol(f"well-posed input rejected: {e}")],
            nontrivial=False,
            outcome="rejected",
        )
    except Exception as e:  # crash of the library on a well-posed input
        import traceback

        tb = traceback.extract_tb(e.__traceback__)
        where = next(
            (f"{f.filename.split('/')[-1]}:{f.name}" for f in reversed(tb) if "/pymablock/" in f.filename),
            "?",
        )
        return dict(
            violations=[
                _viol(
                    f"well-posed input crashes with {type(e).__name__} in {where}: {str(e)[:200]}",
                    key=crash_key(cfg, e, where),
                )
            ],
            nontrivial=False,
            outcome=f"crash:{type(e).__name__}",
        )
    k = cfg["k"]
    orders = orders_upto_total(k, cfg["total"])
    z = orders[0]
    Hx = exact_H(cfg, values)
    H = Hx if exact else {o: to_np(m) for o, m in Hx.items()}
    U, G, Ht = out["U"], out["Uinv"], out["Ht"]
    V = []
    Mt = M if exact else NP

    # finiteness (C20 clause) -- a NaN anywhere is reported by every property that sees it
    if not exact:
        for name in ("U", "Uinv", "Ht"):
            for n in orders:
                if not out[name][n].isfinite():
                    V.append(_viol(f"non-finite values in {name}{list(n)}", key=nan_key(cfg)))
                    return dict(violations=V, nontrivial=False, outcome="nan")

    def term_scale(n, *series):
        tot = 0.0
        if len(series) == 2:
            for a, b in splits2(n):
                if a in series[0] and b in series[1]:
                    tot += series[0][a].maxabs() * series[1][b].maxabs()
        else:
            for a, b, c in splits3(n):
                if a in series[0] and b in series[1] and c in series[2]:
                    tot += series[0][a].maxabs() * series[1][b].maxabs() * series[2][c].maxabs()
        return tot * N

    if "C01" in props or "C05" in props:
        for n in orders:
            P = cauchy(n, G, H, U)
            sc = term_scale(n, G, H, U)
            if not close(P.mask(S), Ht[n].mask(S), sc, exact):
                V.append(_viol(f"(Uinv H U)[{list(n)}] differs from H_tilde on kept elements"))
            if not close(P.mask(R), Mt.zeros(N), sc, exact):
                V.append(_viol(f"(Uinv H U)[{list(n)}] is non-zero on eliminated elements"))
            if not close(Ht[n].mask(R), Mt.zeros(N), sc, exact):
                V.append(_viol(f"H_tilde[{list(n)}] is non-zero on eliminated elements"))
    if "C02" in props or "C05" in props:
        for n in orders:
            target = Mt.eye(N) if n == z else Mt.zeros(N)
            sc = term_scale(n, G, U)
            if not close(cauchy(n, G, U), target, sc, exact):
                V.append(_viol(f"(Uinv U)[{list(n)}] != delta"))
            if not close(cauchy(n, U, G), target, sc, exact):
                V.append(_viol(f"(U Uinv)[{list(n)}] != delta"))
            if herm:
                if not close(G[n], U[n].H(), U[n].maxabs(), exact):
                    V.append(_viol(f"third output[{list(n)}] is not the adjoint of U"))
                if not close(Ht[n], Ht[n].H(), Ht[n].maxabs(), exact):
                    V.append(_viol(f"H_tilde[{list(n)}] is not Hermitian"))
    if "C03" in props or "C05" in props:
        for n in orders[1:]:
            gauge = (U[n] - G[n]).mask(S)
            if not close(gauge, Mt.zeros(N), U[n].maxabs(), exact):
                V.append(_viol(f"gauge violated: (U - Uinv)[{list(n)}] has a kept element"))
    ref = None
    if "C03" in props and herm:
        ref = refsolve.hermitian(Hx, [complex(e[0], e[1]) for e in cfg["E"]], R, orders)
    if "C05" in props and not herm:
        ref = refsolve.nonhermitian(Hx, [complex(e[0], e[1]) for e in cfg["E"]], R, orders)
    if ref is not None:
        refd = dict(zip(("U", "Uinv", "Ht"), ref))
        if not exact:
            refd = {k_: {o: to_np(m) for o, m in v.items()} for k_, v in refd.items()}
        running = 1.0
        for n in orders:
            running = max(running, refd["U"][n].maxabs(), refd["Ht"][n].maxabs())
            for name in ("U", "Uinv", "Ht"):
                if not close(out[name][n], refd[name][n], running ** 2, exact):
                    V.append(_viol(f"{name}[{list(n)}] differs from the independent reference solution"))
    outcome = "ok" if not V else "violation"
    nt = nontrivial(cfg, values, out)
    return dict(violations=V, nontrivial=nt, outcome=outcome + ("/nontrivial" if nt else "/trivial"),
                _out=out, _values=values, _Hx=Hx, _R=R)


def crash_key(cfg, e, where):
    """Known-finding keys for crash classes (only used if listed in known_findings.json)."""
    return None


def nan_key(cfg):
    return None


def describe(cfg):
    keys = ("sizes", "E", "k", "support", "pattern", "fd", "mask", "repr", "hermitian", "vset", "total", "symstyle")
    return {k_: cfg.get(k_) for k_ in keys} | ({"patterns": cfg["patterns"]} if cfg.get("patterns") else {})
