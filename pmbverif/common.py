"""Runner plumbing shared by every check: worker pool, violation handling, replay files,
known findings, evidence files.

A check module provides

    ID, LEVEL, RULE, ASSUMPTIONS (list[str])
    cases(tier, seed) -> iterable of JSON-serialisable case dicts (the *complete* enumeration)
    run_case(case) -> dict with keys
        violations : list of {"what": str, "key": optional known-finding key, "detail": ...}
        nontrivial : bool            (by the check's stated rule)
        outcome    : hashable/str    (coarse observation class; counted to expose vacuity)
        stats      : optional dict of integer counters, summed over cases
        sample     : optional JSON value describing the case as explored
    optional: summarize(results) -> dict merged into coverage
"""
from __future__ import annotations

import hashlib  # noqa: I001
import json
import multiprocessing as mp
import os
import re
import sys
import time
import traceback
import warnings


def _own_arpack_start_vector():
    """pymablock.kpm.rescale estimates spectral bounds with scipy.sparse.linalg.eigsh, whose default start vector is
    drawn from ARPACK's internal random state (it depends on how many Lanczos runs the process has done before).
    The harness owns this source of nondeterminism: without an explicit v0 a fixed, generic start vector is used,
    so every execution of a case -- in a pool worker, in the confirming re-execution, in a replay -- is identical."""
    import numpy as _np
    import scipy.sparse.linalg as _sla

    if getattr(_sla.eigsh, "_pmbverif_fixed_v0", False):
        return
    _orig = _sla.eigsh

    def eigsh(A, *args, **kwargs):
        if kwargs.get("v0") is None:
            n = A.shape[0]
            kwargs["v0"] = _np.cos(1.0 + 0.37 * _np.arange(n)) + 0.1
        return _orig(A, *args, **kwargs)

    eigsh._pmbverif_fixed_v0 = True
    _sla.eigsh = eigsh
    import scipy.sparse as _sp

    _sp.linalg.eigsh = eigsh


_own_arpack_start_vector()
from collections import Counter

VERIF = os.path.dirname(os.path.dirname(os.path.abspath(__file__)))
EVIDENCE_DIR = os.path.join(VERIF, "evidence")
REPLAY_DIR = os.path.join(VERIF, "replays")
KNOWN_FILE = os.path.join(VERIF, "known_findings.json")
NPROC = int(os.environ.get("VERIF_NPROC", "16"))


def jhash(obj) -> str:
    return hashlib.md5(json.dumps(obj, sort_keys=True, default=str).encode()).hexdigest()[:12]


def load_known():
    with open(KNOWN_FILE) as f:
        entries = json.load(f)["findings"]
    return {e["key"]: e for e in entries if e["status"] == "known"}, entries


def _worker(args):
    modname, case = args
    import importlib

    mod = importlib.import_module(modname)
    t = time.time()
    try:
        with warnings.catch_warnings():
            warnings.simplefilter("ignore")
            res = mod.run_case(case)
    except BaseException as e:  # harness or library crash outside the oracle
        frames = traceback.extract_tb(e.__traceback__)
        in_library = [f for f in frames if "/pymablock/" in f.filename and "/pmbverif/" not in f.filename]
        res = {
            "violations": [
                {
                    # an exception that passed through library code in a place where the check expects none
                    # is a finding about the library; one raised purely inside the harness is a harness error
                    "what": (f"library raised {type(e).__name__} in {in_library[-1].name}: {str(e)[:200]}" if in_library
                             else f"unhandled {type(e).__name__}: {str(e)[:300]}"),
                    "key": None,
                    "detail": traceback.format_exc()[-1500:],
                    "harness_error": not in_library,
                }
            ],
            "nontrivial": False,
            "outcome": "crash",
        }
    res["case"] = case
    res["dt"] = time.time() - t
    return res


def _init_worker():
    # Library is imported lazily per worker from /repo's working tree (editable install).
    sys.setrecursionlimit(10000)


def run_check(mod, tier: str, seed: int, budget_s: float | None = None, replay: str | None = None):
    """Run a check module; returns the process exit code."""
    t0 = time.time()
    pid = mod.ID
    known, _all = load_known()
    if replay is not None:
        return run_replay(mod, replay)

    cases = list(mod.cases(tier, seed))
    total_cases = len(cases)
    results = []
    capped = False
    jobs = [(mod.__name__, c) for c in cases]
    nproc = min(NPROC, max(1, len(jobs)))
    ctx = mp.get_context("fork")
    with ctx.Pool(nproc, initializer=_init_worker) as pool:
        chunk = max(1, min(8, len(jobs) // (nproc * 8) or 1))
        for res in pool.imap(_worker, jobs, chunksize=chunk):
            results.append(res)
            if os.environ.get("VERIF_VERBOSE"):
                print(f"  case dt={res['dt']:.1f}s outcome={res.get('outcome')} stats={res.get('stats')} {json.dumps(res['case'], default=str)[:150]}", flush=True)
            if budget_s is not None and time.time() - t0 > budget_s:
                capped = True
                pool.terminate()
                break

    # ---- determinism guard: a fixed 1-in-20 stride re-run in an interpreter with another hash seed
    hash_mismatch = []
    hash_checked = 0
    if not capped and not os.environ.get("VERIF_NO_HASHCHECK"):
        import subprocess

        stride, budget = [], 15.0  # seconds of single-process work
        for i, r in enumerate(results):
            if i % 20 == 0 and r["dt"] <= budget and len(stride) < 60:
                stride.append(r)
                budget -= r["dt"]
        if stride:
            env = dict(os.environ, PYTHONHASHSEED="1")
            try:
                proc = subprocess.run([sys.executable, "-m", "pmbverif.rerun", mod.__name__],
                                      input=json.dumps([r["case"] for r in stride]), capture_output=True,
                                      text=True, env=env, timeout=900)
                second = json.loads(proc.stdout)
                for r, s2 in zip(stride, second):
                    hash_checked += 1
                    first = {"outcome": str(r.get("outcome")), "violations": sorted(v["what"] for v in r["violations"])}
                    mask = lambda d: {"outcome": d.get("outcome"), "violations": sorted(re.sub(r"\d+", "#", w) for w in d.get("violations", []))}  # noqa: E731
                    if mask(first) != mask(s2 if isinstance(s2, dict) else {}):
                        hash_mismatch.append((r["case"], first, s2))
            except Exception as e:  # noqa: BLE001
                hash_mismatch.append(({}, "rerun failed", str(e)[:200]))

    # ---- violations: confirm by re-execution, classify against known findings
    viol_lines = []
    known_lines = []
    harness_errors = []
    n_viol = 0
    seen_known = Counter()
    confirmed = 0
    for res in results:
        if not res["violations"]:
            continue
        case = res["case"]
        if all((v.get("key") in known) for v in res["violations"]):
            # only listed known findings in this case: report (first few) without re-execution
            for v in res["violations"]:
                key = v["key"]
                seen_known[key] += 1
                if seen_known[key] <= 3:
                    known_lines.append(
                        f"KNOWN-FINDING: property={pid} {key}: {known[key]['summary']} "
                        f"[case {jhash(case)}: {v['what'][:160]}]"
                    )
            continue
        confirmed += 1
        if confirmed > 25:  # enough replays written; count the rest without re-execution
            for v in res["violations"]:
                key = v.get("key")
                if key is not None and key in known:
                    seen_known[key] += 1
                elif not v.get("harness_error"):
                    n_viol += 1
            continue
        # determinism: re-run once in this process
        again = _worker((mod.__name__, case))
        # the same violations must reappear; numbers inside the messages (residuals of solvers with a randomly
        # started bounds estimate) may differ between executions, the kind of violation may not
        first = sorted(jhash([re.sub(r"\d+", "#", v["what"]), v.get("key")]) for v in res["violations"])
        second = sorted(jhash([re.sub(r"\d+", "#", v["what"]), v.get("key")]) for v in again["violations"])
        if first != second:
            harness_errors.append((case, res["violations"], again["violations"]))
            continue
        for v in res["violations"]:
            if v.get("harness_error"):
                harness_errors.append((case, [v], []))
                continue
            key = v.get("key")
            if key is not None and key in known:
                seen_known[key] += 1
                if seen_known[key] <= 3:
                    known_lines.append(
                        f"KNOWN-FINDING: property={pid} {key}: {known[key]['summary']} "
                        f"[case {jhash(case)}: {v['what'][:160]}]"
                    )
                continue
            n_viol += 1
            if n_viol <= 25:
                path = write_replay(pid, case, v)
                viol_lines.append(f"VIOLATION property={pid} replay={path}")
                print(f"  -> {v['what'][:300]}", flush=True)
                print(viol_lines[-1], flush=True)
    if n_viol or harness_errors:

        classes = Counter()
        for res in results:
            for v in res["violations"]:
                if v.get("key") in known:
                    continue
                classes[re.sub(r"\d+", "#", v["what"])[:140]] += 1
        for cls, cnt in classes.most_common(12):
            print(f"  class x{cnt}: {cls}", flush=True)
    for key, cnt in seen_known.items():
        known_lines.append(f"KNOWN-FINDING: property={pid} {key}: matched {cnt} case(s) in this run")
    for line in known_lines:
        print(line, flush=True)

    # ---- evidence
    evaluations = len(results)
    nontrivial_keys = {jhash(r["case"]) for r in results if r.get("nontrivial")}
    outcomes = Counter(str(r.get("outcome")) for r in results)
    stats = Counter()
    for r in results:
        for k, val in (r.get("stats") or {}).items():
            stats[k] += val
    samples = [r.get("sample", r["case"]) for r in results if r.get("nontrivial")][:3]
    if not samples:
        samples = [r.get("sample", r["case"]) for r in results][:3]
    coverage = {
        "evaluations": evaluations,
        "distinct_nontrivial": len(nontrivial_keys),
        "rule": mod.RULE,
        "samples": samples,
        "exhaustive": (not capped) and not harness_errors,
        "cases_enumerated": total_cases,
        "cases_completed": evaluations,
        "distinct_outcomes": len(outcomes),
        "outcome_histogram": dict(outcomes.most_common(12)),
        "known_findings_matched": dict(seen_known),
        "cpu_s": round(sum(r["dt"] for r in results), 1),
        "rerun_under_second_hash_seed": hash_checked,
    }
    if capped:
        coverage["cap"] = f"time budget {budget_s}s hit after {evaluations}/{total_cases} cases (enumeration order: smallest structures first)"
    for k, val in stats.items():
        coverage[k] = val
    if hasattr(mod, "summarize"):
        coverage.update(mod.summarize(results))
    ev = {
        "property_id": pid,
        "tier": tier,
        "seed": seed,
        "level": mod.LEVEL,
        "coverage": coverage,
        "assumptions": list(mod.ASSUMPTIONS),
        "wall_s": round(time.time() - t0, 2),
        "violations": n_viol,
    }
    if not os.environ.get("VERIF_NO_EVIDENCE"):  # set only when evaluating seeded changes
        os.makedirs(EVIDENCE_DIR, exist_ok=True)
        with open(os.path.join(EVIDENCE_DIR, f"{pid}.json"), "w") as f:
            json.dump(ev, f, indent=1, default=str)
    summary = {k: coverage[k] for k in coverage if k not in ("samples", "rule", "outcome_histogram")}
    print(f"{pid} tier={tier} seed={seed}: {json.dumps(summary, default=str)} wall={ev['wall_s']}s")
    if hash_mismatch:
        for case, a, b in hash_mismatch[:3]:
            print(f"HARNESS-ERROR {pid}: result depends on PYTHONHASHSEED: case={json.dumps(case, default=str)[:200]} first={str(a)[:200]} second={str(b)[:200]}")
        return 2
    if harness_errors:
        for case, a, b in harness_errors[:5]:
            print(f"HARNESS-ERROR {pid}: case={json.dumps(case, default=str)[:300]}\n   first={str(a[:1])[:600]}\n   second={str(b[:1])[:300]}")
        return 2
    return 1 if n_viol else 0


def write_replay(pid, case, violation):
    os.makedirs(REPLAY_DIR, exist_ok=True)
    body = {"property": pid, "case": case, "violation": violation}
    path = os.path.join(REPLAY_DIR, f"{pid}-{jhash(case)}.json")
    with open(path, "w") as f:
        json.dump(body, f, indent=1, default=str)
    return path


def run_replay(mod, path):
    with open(path) as f:
        body = json.load(f)
    case = body["case"]
    a = _worker((mod.__name__, case))
    b = _worker((mod.__name__, case))
    sa = sorted(v["what"] for v in a["violations"])
    sb = sorted(v["what"] for v in b["violations"])
    if sa != sb:
        print("HARNESS-ERROR: replay is not deterministic")
        return 2
    if a["violations"]:
        for v in a["violations"]:
            print("  ->", v["what"][:400])
        print(f"VIOLATION property={mod.ID} replay={path}")
        return 1
    print(f"replay of {path}: property holds on this case")
    return 0
